"""C14 - Brooks-Corey relative permeabilities: finite, in [0, k_max], zero at/below residual,
monotone in the phase's own saturation; invalid parameters / saturations rejected; two-phase helper."""

from __future__ import annotations

import itertools

import numpy as np

from ..common import V, samples_of, seed_offset

PH = [("kro", "So", "n_o", "S_or", "k_ro_max"), ("krw", "Sw", "n_w", "S_wc", "k_rw_max"),
      ("krg", "Sg", "n_g", "S_gc", "k_rg_max")]


def sat_records(triples):
    return np.array([tuple(t) for t in triples], dtype=[("So", "f8"), ("Sg", "f8"), ("Sw", "f8")])


def simplex(step, extra):
    n = int(round(1 / step))
    pts = [(i / n, j / n, (n - i - j) / n) for i in range(n + 1) for j in range(n + 1 - i)]
    for so, sg, sw in extra:  # each residual value exactly, completed on the simplex
        pts.append((so, sg, sw))
    return pts


def make_params(exps, res, ends):
    from bluebonnet.flow.flowproperties import RelPermParams  # noqa: PLC0415

    return RelPermParams(n_o=exps[0], n_w=exps[1], n_g=exps[2], S_or=res[0], S_wc=res[1], S_gc=res[2],
                         k_ro_max=ends[0], k_rw_max=ends[1], k_rg_max=ends[2])


def eval_valid(case):
    from bluebonnet.flow.flowproperties import relative_permeabilities  # noqa: PLC0415

    res = case["res"]
    viol, n = [], 0
    extra = []
    s_or, s_wc, s_gc = res
    for so, sw, sg in [(s_or, s_wc, 1 - s_or - s_wc), (s_or, 1 - s_or - s_gc, s_gc), (1 - s_wc - s_gc, s_wc, s_gc),
                       (s_or / 2, s_wc / 2, 1 - s_or / 2 - s_wc / 2)]:
        if min(so, sw, sg) >= 0:
            extra.append((so, sg, sw))
    pts = simplex(case["step"], extra)
    sat = sat_records(pts)
    for exps, ends in itertools.product(case["exps"], case["ends"]):
        n += 1
        prm = make_params(exps, res, ends)
        c = dict(case, exps=list(exps), ends=list(ends))
        try:
            with np.errstate(all="ignore"):
                k = relative_permeabilities(sat.copy(), prm)
        except Exception as e:  # noqa: BLE001
            viol.append(V("valid/raises", f"admissible parameters {prm} raise {type(e).__name__}: {e}", case=c))
            continue
        if len(k) != len(sat):
            viol.append(V("valid/length", f"{len(k)} rows for {len(sat)} saturation records", case=c))
            continue
        if n % 5 == 1:
            # a record's permeabilities depend on that record alone: the same records in reversed order, as a record
            # array (the documented input type), and a sub-batch give bitwise the same values
            with np.errstate(all="ignore"):
                k_rev = relative_permeabilities(sat[::-1].copy().view(np.recarray), prm)
                k_sub = relative_permeabilities(sat[len(sat) // 3: len(sat) // 3 + 7].copy(), prm)
            # ... and the same records with one more record in the call whose sum is off by 8e-4 (inside what the
            # library accepts as "summing to one"; if it is rejected there is nothing to compare)
            k_mix = None
            try:
                with np.errstate(all="ignore"):
                    k_mix = relative_permeabilities(np.concatenate([sat, sat_records([(0.5004 * 1.0, 0.3002, 0.2002)])]), prm)
            except Exception:  # noqa: BLE001
                pass
            # process-wide numerical settings a user may have chosen: floating-point errors raised (np.seterr(all="raise")) and
            # warnings turned into errors - admissible input still returns, and returns the same values
            import warnings  # noqa: PLC0415
            try:
                with np.errstate(all="raise"), warnings.catch_warnings():
                    warnings.simplefilter("error")
                    k_strict = relative_permeabilities(sat.copy(), prm)
                if any(not np.array_equal(np.asarray(k_strict[nm], dtype=float), np.asarray(k[nm], dtype=float), equal_nan=True)
                       for nm in ("kro", "krw", "krg")):
                    viol.append(V("valid/strict-numpy-settings", "values differ when floating-point errors are raised / warnings are errors", case=c))
            except Exception as e:  # noqa: BLE001
                viol.append(V("valid/strict-numpy-settings", f"admissible parameters {prm} and saturations on the simplex raise "
                              f"{type(e).__name__} ({e}) when the process runs with np.seterr(all='raise') and warnings as errors: an "
                              "intermediate is invalid (power of a negative normalised saturation) and only hidden by the default settings", case=c))
            for name in ("kro", "krw", "krg"):
                a0 = np.asarray(k[name], dtype=float)
                if k_mix is not None and not np.array_equal(np.asarray(k_mix[name], dtype=float)[:-1], a0, equal_nan=True):
                    viol.append(V(f"elementwise/{name}", f"{name} of records that sum to one changes when a record summing to 1.0008 "
                                  "is part of the same call", case=c))
                    break
                if not (np.array_equal(np.asarray(k_rev[name], dtype=float)[::-1], a0, equal_nan=True)
                        and np.array_equal(np.asarray(k_sub[name], dtype=float), a0[len(sat) // 3: len(sat) // 3 + 7], equal_nan=True)):
                    viol.append(V(f"elementwise/{name}", f"{name} of a saturation record depends on which other records are in the "
                                  "same call (reversed batch / sub-batch give other values)", case=c))
                    break
        for (kname, sname, _, rname, mname) in PH:
            kv, sv = np.asarray(k[kname], dtype=float), sat[sname]
            s_r, k_max = getattr(prm, rname), getattr(prm, mname)
            bad = ~np.isfinite(kv)
            if bad.any():
                i = int(np.flatnonzero(bad)[0])
                viol.append(V(f"finite/{kname}", f"{kname} = {kv[i]!r} at {sname}={sv[i]!r} (residual {s_r}, exponent "
                              f"{getattr(prm, PH[[p[0] for p in PH].index(kname)][2])})", case=c, observed=float(kv[i])))
                continue
            if kv.min() < 0 or kv.max() > k_max + 1e-15:
                i = int(np.argmax(kv))
                viol.append(V(f"range/{kname}", f"{kname} in [{kv.min()!r}, {kv.max()!r}] outside [0, k_max={k_max}] "
                              f"(max at {sname}={sv[i]!r})", case=c, observed=float(kv.max()), expected=k_max))
            low = sv <= s_r
            if low.any() and np.any(kv[low] != 0):
                i = int(np.flatnonzero(low & (kv != 0))[0])
                viol.append(V(f"zero-below-residual/{kname}", f"{kname} = {kv[i]!r} at {sname}={sv[i]!r} <= residual {s_r}",
                              case=c, observed=float(kv[i]), expected=0.0))
            o = np.argsort(sv, kind="stable")
            ks, ss = kv[o], sv[o]
            d = np.diff(ks)
            same = np.diff(ss) == 0
            if np.any(d[~same] < 0) or np.any(d[same] != 0):
                i = int(np.flatnonzero((d < 0) | (same & (d != 0)))[0])
                viol.append(V(f"monotone/{kname}", f"{kname} is not a non-decreasing function of {sname}: "
                              f"{ks[i]!r} at {ss[i]!r} -> {ks[i + 1]!r} at {ss[i + 1]!r}", case=c))
        if len(viol) >= 3:
            break
    return {"violations": viol[:3], "evals": n * len(sat), "outcome": "valid", "key": tuple(res), "nsets": n}


def eval_invalid(case):
    from bluebonnet.flow.flowproperties import relative_permeabilities  # noqa: PLC0415

    base = dict(n_o=2.0, n_w=2.0, n_g=2.0, S_or=0.1, S_wc=0.1, S_gc=0.05, k_ro_max=0.9, k_rw_max=0.5, k_rg_max=1.0)
    sat = sat_records([(0.5, 0.3, 0.2), (0.2, 0.2, 0.6)])
    if case["field"] == "sum":
        s = case["value"]
        sat = sat_records([(0.5, 0.3, 0.2), (0.5 * s, 0.3 * s, 0.2 * s)])
    elif case["field"] == "sum-among-many":  # ONE bad record among 100 good ones (first / middle / last position)
        s, pos = case["value"]
        recs = [(0.5 - 0.002 * k, 0.3 + 0.001 * k, 0.2 + 0.001 * k) for k in range(100)]
        recs[pos] = tuple(x * s for x in recs[pos])
        sat = sat_records(recs)
    elif case["field"] == "sum-cancelling":  # two bad records whose errors cancel in any average
        a, b = case["value"]
        sat = sat_records([(0.5 * a, 0.3 * a, 0.2 * a), (0.5 * b, 0.3 * b, 0.2 * b), (0.4, 0.4, 0.2)])
    else:
        base[case["field"]] = case["value"]
    from bluebonnet.flow.flowproperties import RelPermParams  # noqa: PLC0415

    try:
        with np.errstate(all="ignore"):
            relative_permeabilities(sat, RelPermParams(**base))
    except Exception:  # noqa: BLE001 - "rejected with an error", whatever its type
        if case["field"] in base and not case["field"].startswith("sum"):
            # the same inadmissible parameter set handed to the two-phase table helper is rejected as well
            from bluebonnet.flow.flowproperties import relative_permeabilities_twophase  # noqa: PLC0415
            try:
                with np.errstate(all="ignore"):
                    relative_permeabilities_twophase(RelPermParams(**base), 0.05)
            except Exception:  # noqa: BLE001
                return {"violations": [], "evals": 2, "outcome": "rejected"}
            return {"violations": [V("invalid/accepted-by-helper", f"{case['field']}={case['value']} is rejected by relative_permeabilities "
                                     "but accepted by relative_permeabilities_twophase", case=case)], "evals": 2, "outcome": "accepted"}
        return {"violations": [], "evals": 1, "outcome": "rejected"}
    return {"violations": [V("invalid/accepted", f"{case['field']}={case['value']} was accepted", case=case)],
            "evals": 1, "outcome": "accepted"}


def eval_twophase(case):
    from bluebonnet.flow.flowproperties import relative_permeabilities_twophase  # noqa: PLC0415

    prm = make_params(case["exps"], case["res"], case["ends"])
    viol = []
    s_wc = case["res"][1]
    for sw in sorted({0.0, s_wc / 2, s_wc}):
        try:
            with np.errstate(all="ignore"):
                df = relative_permeabilities_twophase(prm, sw)
        except Exception as e:  # noqa: BLE001
            viol.append(V("twophase/raises", f"Sw={sw} <= S_wc={s_wc}: {type(e).__name__}: {e}", case=case))
            continue
        # history: edit the returned table in place, call again with equal arguments - must be fresh
        df2 = relative_permeabilities_twophase(prm, sw)
        df2.iloc[:, :] = 100.0
        with np.errstate(all="ignore"):
            df = relative_permeabilities_twophase(prm, sw)
        tot = np.asarray(df["So"] + df["Sw"] + df["Sg"], dtype=float)
        if not np.allclose(tot, 1.0, rtol=0, atol=1e-12):
            viol.append(V("twophase/sum", f"two-phase saturations sum to {tot.min()!r}..{tot.max()!r}", case=case))
        krw = np.asarray(df["krw"], dtype=float)
        if not np.all(krw == 0):
            viol.append(V("twophase/immobile-water", f"krw up to {np.nanmax(krw)!r} (NaN: {bool(np.isnan(krw).any())}) "
                          f"with Sw={sw} <= S_wc={s_wc}", case=case, observed=float(np.nanmax(np.abs(krw)))))
        for col in ("kro", "krg"):
            v = np.asarray(df[col], dtype=float)
            if not np.all(np.isfinite(v)):
                viol.append(V(f"twophase/finite-{col}", f"{col} not finite for Sw={sw}", case=case))
        # the helper's rows are Brooks-Corey relative permeabilities of its own saturation rows
        from bluebonnet.flow.flowproperties import relative_permeabilities  # noqa: PLC0415
        recs = sat_records(list(zip(np.asarray(df["So"], dtype=float), np.asarray(df["Sg"], dtype=float),
                                    np.asarray(df["Sw"], dtype=float))))
        with np.errstate(all="ignore"):
            ref = relative_permeabilities(recs, prm)
        for col, kmax in (("kro", prm.k_ro_max), ("krw", prm.k_rw_max), ("krg", prm.k_rg_max)):
            v = np.asarray(df[col], dtype=float)
            r = np.asarray(ref[col], dtype=float)
            if not (np.all(np.abs(v - r) <= 1e-15 + 4 * np.finfo(float).eps * np.abs(r)) and v.max() <= kmax + 1e-15 and v.min() >= 0):
                viol.append(V(f"twophase/{col}", f"helper table {col} (range {v.min()!r}..{v.max()!r}, k_max {kmax}) is not "
                              f"relative_permeabilities of its own saturation rows for Sw={sw}", case=case))
    for sw in (s_wc + 0.05, min(1.0, s_wc + 0.5)):
        try:
            relative_permeabilities_twophase(prm, sw)
            viol.append(V("twophase/mobile-water-accepted", f"Sw={sw} > S_wc={s_wc} accepted", case=case))
        except Exception:  # noqa: BLE001 - any error type is a rejection
            pass
    return {"violations": viol[:3], "evals": 5, "outcome": "twophase", "key": ("2p",) + tuple(case["res"])}


def evaluate(case):
    return {"valid": eval_valid, "invalid": eval_invalid, "twophase": eval_twophase}[case["kind"]](case)


def cases(tier, seed):
    thorough = tier == "thorough"
    ev = [1.0, 1.5, 2.0, 3.7, 6.0]
    rv = [0.0, 0.1, 0.25]
    kv = [0.0, 0.4, 1.0]
    if seed:
        o = seed_offset(seed)
        ev.append(round(1 + 5 * o, 3))
        rv.append(round(0.3 * o, 3))
    exps = list(itertools.product(ev, repeat=3))
    ends = list(itertools.product(kv, repeat=3)) if thorough else [(1, 1, 1), (0.4, 1, 0), (0, 0.4, 1), (1, 0, 0.4), (0.4, 0.4, 0.4)]
    out = []
    for res in itertools.product(rv, repeat=3):
        if sum(res) < 1:
            out.append({"kind": "valid", "res": list(res), "exps": exps, "ends": [list(e) for e in ends],
                        "step": 1 / 40 if thorough else 1 / 20})
    for f, vals in [("n_o", [-1, 0, 0.99, 6.01, 8]), ("n_w", [-1, 0, 0.99, 6.01, 8]), ("n_g", [-1, 0, 0.99, 6.01, 8]),
                    ("S_or", [-0.01, 1.01]), ("S_wc", [-0.01, 1.01]), ("S_gc", [-0.01, 1.01]),
                    ("k_ro_max", [-0.01, 1.01]), ("k_rw_max", [-0.01, 1.01]), ("k_rg_max", [-0.01, 1.01]),
                    ("sum", [0.9, 1.01, 1.1, 2.0, 0.0, 0.99, 1.002]),
                    ("sum-among-many", [[1.05, 0], [1.05, 50], [1.05, 99], [0.9, 37]]),
                    ("sum-cancelling", [[0.9, 1.1], [0.5, 1.5]])]:
        out += [{"kind": "invalid", "field": f, "value": v} for v in vals]
    # large residuals: little mobile pore space left (denominator 0.04, 1e-3, 1e-9), one large residual on its own
    big = [(0.6, 0.3, 0.06), (0.9, 0.05, 0.049), (0.0, 0.97, 0.0), (0.5, 0.0, 0.0), (0.3, 0.3, 0.4 - 1e-9), (0.97, 0.0, 0.029)]
    for res in big:
        out.append({"kind": "valid", "res": list(res), "exps": exps[:: max(1, len(exps) // 12)], "ends": [list(e) for e in ends],
                    "step": 1 / 20})
    for res, e3 in itertools.product(itertools.product(rv, repeat=3), [(1.0, 1.0, 1.0), (2.0, 1.5, 3.7)]):
        if sum(res) < 1:
            out.append({"kind": "twophase", "res": list(res), "exps": list(e3), "ends": [1.0, 0.4, 1.0]})
    # connate-water saturations that are not short decimals (a table keyed on rounded saturations would move them)
    for s_wc, e3 in itertools.product([0.12346, 1 / 3, 0.0777777777, 1e-7], [(1.0, 1.0, 1.0), (2.0, 1.5, 3.7)]):
        out.append({"kind": "twophase", "res": [0.1, s_wc, 0.05], "exps": list(e3), "ends": [1.0, 0.4, 1.0]})
    return out


def run(ctx):
    cs = cases(ctx.tier, ctx.seed)
    res = ctx.pmap(evaluate, cs, chunksize=1)
    cov = {
        "evaluations": sum(r.get("evals", 0) for r in res),
        "distinct_nontrivial": sum(r.get("nsets", 0) for r in res),
        "rule": "every (exponent triple x residual triple x end-point triple) parameter set on every record of "
                "a simplex lattice of saturations plus each residual value exactly; non-trivial = distinct "
                "admissible parameter set evaluated (each on >= 231 saturation records)",
        "samples": [{k: (v if k not in ("exps", "ends") else v[:2]) for k, v in c.items()} for c in samples_of(cs)],
        "invalid_cases": sum(1 for c in cs if c["kind"] == "invalid"),
    }
    return ctx.finish("exploration", cov, [
        "saturation sums are rejected beyond the function's own 1e-3 tolerance (0.9, 1.01, 1.1, 2, 0)",
    ])


def replay(case):
    if case.get("kind") == "valid" and case.get("exps") and not isinstance(case["exps"][0], list):
        case = dict(case, exps=[case["exps"]], ends=[case["ends"]])
    return evaluate(case)["violations"]
