"""C16 - multiphase storage coefficient is the pressure derivative of the documented stored
mass; total mobility is the documented sum; tabulated diffusivity is their ratio."""

from __future__ import annotations

import itertools
import warnings

import numpy as np

from ..common import V, samples_of, seed_offset
from ..refmodels import multiphase as mp
from .c15 import KRS, RHOS, get_table


def evaluate(case):
    from bluebonnet.flow import flowproperties as fp  # noqa: PLC0415

    tb = get_table(case)
    p = tb["pressure"]
    rho = RHOS[case["rho"]]
    pvt = mp.interp_pvt(tb, rho)
    krt = mp.kr_table(**KRS[case["kr"]])
    kr = mp.interp_kr(krt)
    so_used = tb["So"] if case["So"] is None else np.array([case["So"]])
    if so_used.max() > krt["So"].max():  # saturations must lie inside the rel-perm table
        return {"violations": [], "outcome": "n/a"}
    phi, Sw = case["phi"], case["Sw"]
    So = np.full(p.shape, case["So"], dtype=float) if case["So"] is not None else tb["So"]  # (p may be integer-typed)
    if np.any(1 - So - Sw < -1e-12):
        return {"violations": [], "outcome": "n/a"}
    viol = []
    c = np.asarray(fp.compressibility_combined_func(p, So, phi, Sw, pvt), dtype=float)
    fn = {k: pvt[k] for k in mp.PROPS}
    G = mp.storage_doc(p, So, Sw, phi, fn, rho)
    want = mp.storage_doc(p + 0.5, So, Sw, phi, fn, rho) - mp.storage_doc(p - 0.5, So, Sw, phi, fn, rho)
    tol_abs = 1e-8 * np.abs(want) + 1e-13 * np.abs(G)  # differencing two O(G) numbers costs ~eps*G
    if c.shape != p.shape or not np.all(np.isfinite(c)):
        viol.append(V("storage/finite-shape", f"shape {c.shape}, finite {bool(np.all(np.isfinite(c)))}", case=case))
        return {"violations": viol}
    err = np.abs(c - want) / tol_abs
    if not err.max() <= 1:
        k = int(np.argmax(err))
        viol.append(V("storage/is-pressure-derivative", f"total compressibility at p={p[k]:.6g} is {c[k]!r}; the "
                      f"documented storage function changes by {want[k]!r} per psi there (stored mass G={G[k]:.6g})",
                      case=case, observed=float(c[k]), expected=float(want[k]), tol=1e-8))
    if case["family"] == "constant" and not np.all(np.abs(c) <= 1e-12 * np.abs(G)):
        viol.append(V("storage/zero-for-constant-table", f"pressure-independent table: compressibility up to "
                      f"{np.max(np.abs(c)):.3g} (stored mass {G[0]:.3g})", case=case, observed=float(np.max(np.abs(c)))))
    c2 = np.asarray(fp.compressibility_combined_func(p, So, 2 * phi, Sw, pvt), dtype=float)
    if not np.allclose(c2, 2 * c, rtol=1e-12, atol=1e-13 * np.max(np.abs(G))):
        viol.append(V("storage/proportional-to-porosity", "doubling porosity does not double the compressibility",
                      case=case))
    if case["family"] in ("invB-linear", "vaporised"):
        f = mp.family(case["family"])
        h = 1e-3
        ex = (mp.storage_doc(p + h, So, Sw, phi, f, rho) - mp.storage_doc(p - h, So, Sw, phi, f, rho)) / (2 * h)
        inner = slice(2, -2)
        rel = np.abs(c[inner] - ex[inner]) / np.maximum(np.abs(ex[inner]), 1e-300)
        # the table stores B, not 1/B: on the uniform 10-psi grid the interpolant's centred slope across a
        # node is second-order accurate (1.9e-4 measured); on non-uniform grids it is only first order in the
        # cell asymmetry, so the generating functions' slope is demanded on the uniform grid only
        tol = 2e-3
        if case["grid"] == "uniform" and not rel.max() <= tol:
            k = int(np.argmax(rel)) + 2
            viol.append(V("storage/analytic-slope", f"compressibility {c[k]!r} vs analytic dG/dp {ex[k]!r} at "
                          f"p={p[k]:.6g} ({rel.max():.3g} relative)", case=case, observed=float(c[k]),
                          expected=float(ex[k]), tol=tol))
    # call history on the SAME pvt object: other saturations (array-valued Sw, integer 0), then the first call again
    So_b = np.clip(So * 0.5 + 0.05, 0.0, 1.0)
    Sw_b = np.minimum(Sw + 0.02 * (np.arange(len(p)) % 3), 1 - So_b)
    for So_x, Sw_x, tag in ((So_b, Sw, "other-So"), (So, Sw_b, "array-Sw"), (So_b, Sw_b, "other-So-array-Sw"),
                            (So, 0 if Sw == 0 else np.float64(Sw), "Sw-as-int-or-0d")):
        cx = np.asarray(fp.compressibility_combined_func(p, So_x, phi, Sw_x, pvt), dtype=float)
        wx = mp.storage_doc(p + 0.5, So_x, Sw_x, phi, fn, rho) - mp.storage_doc(p - 0.5, So_x, Sw_x, phi, fn, rho)
        Gx = mp.storage_doc(p, So_x, Sw_x, phi, fn, rho)
        if cx.shape != p.shape or not np.all(np.abs(cx - wx) <= 1e-8 * np.abs(wx) + 1e-13 * np.abs(Gx)):
            viol.append(V("storage/is-pressure-derivative/" + tag, "a second call on the same PVT functions with other "
                          f"saturations ({tag}) does not return the derivative of the stored mass for THOSE saturations",
                          case=case))
            break
    c_again = np.asarray(fp.compressibility_combined_func(p, So, phi, Sw, pvt), dtype=float)
    if not np.array_equal(c_again, c):
        viol.append(V("storage/depends-on-call-history", "the first call repeated after calls with other saturations "
                      "returns something else", case=case))
    lam = np.asarray(fp.lambda_combined_func(p, So, pvt, kr), dtype=float)
    lam_want = mp.lam_doc(p, So, tb, kr, rho)
    if not np.allclose(lam, lam_want, rtol=1e-12, atol=0):
        viol.append(V("mobility/documented-sum", f"total mobility differs from the documented sum by up to "
                      f"{np.max(np.abs(lam / lam_want - 1)):.3g}", case=case))
    with np.errstate(all="ignore"):
        al = np.asarray(fp.alpha_multiphase(p, So, phi, Sw, pvt, kr), dtype=float)
        ok = np.abs(want) > 1e-9 * np.abs(G)
        if ok.any() and not np.allclose(al[ok], (lam_want / want)[ok], rtol=1e-7, atol=0):
            k = int(np.flatnonzero(ok)[np.argmax(np.abs(al[ok] / (lam_want / want)[ok] - 1))])
            viol.append(V("diffusivity/mobility-over-storage", f"alpha at p={p[k]:.6g} is {al[k]!r}; documented "
                          f"lambda / c = {lam_want[k] / want[k]!r}", case=case, observed=float(al[k]),
                          expected=float(lam_want[k] / want[k])))
    if case["So"] is None and case["family"] != "constant":
        with warnings.catch_warnings(), np.errstate(all="ignore"):
            warnings.simplefilter("ignore")
            fl = fp.FlowPropertiesTwoPhase.from_table(dict(tb), krt, rho, phi, Sw, float(p[len(p) // 2]))
            # the reference densities are a MAPPING: listed water-first (sorted keys: g, o, w) they name the same fluids
            for order in (("rho_w0", "rho_g0", "rho_o0"), ("rho_g0", "rho_o0", "rho_w0")):
                fl_o = fp.FlowPropertiesTwoPhase.from_table(dict(tb), krt, {k: rho[k] for k in order}, phi, Sw, float(p[len(p) // 2]))
                if not np.array_equal(np.asarray(fl_o.pvt_props["alpha"], dtype=float), np.asarray(fl.pvt_props["alpha"], dtype=float),
                                      equal_nan=True):
                    viol.append(V("from_table/density-mapping-order", f"from_table with the reference densities listed in the key order "
                                  f"{list(order)} tabulates another diffusivity: the densities are taken by position, not by name", case=case))
                    break
            # the same table listed from high to low pressure: every row keeps its own saturation
            tb_r = {k: np.asarray(v)[::-1].copy() for k, v in tb.items()}
            fl_r = fp.FlowPropertiesTwoPhase.from_table(tb_r, krt, rho, phi, Sw, float(p[len(p) // 2]))
            # the documented input type: a DataFrame - here one that was sorted / filtered without resetting its index
            import pandas as pd  # noqa: PLC0415
            df_r = pd.DataFrame(tb).sort_values("pressure", ascending=False)
            df_f = pd.DataFrame(tb).iloc[3:]
            snap = (df_r.copy(), df_f.copy())
            fl_dr = fp.FlowPropertiesTwoPhase.from_table(df_r, krt, rho, phi, Sw, float(p[len(p) // 2]))
            fl_df = fp.FlowPropertiesTwoPhase.from_table(df_f, krt, rho, phi, Sw, float(p[len(p) // 2]))
        if not (df_r.equals(snap[0]) and df_f.equals(snap[1])):
            viol.append(V("from_table/caller-table-modified", "from_table modified the caller's DataFrame", case=case))
        for tag, f2, sel in (("descending frame with its original index", fl_dr, slice(None)), ("row-filtered frame", fl_df, slice(3, None))):
            p2 = np.asarray(f2.pvt_props["pressure"], dtype=float)
            a2 = np.asarray(f2.pvt_props["alpha"], dtype=float)
            o2 = np.argsort(p2)
            okk = ok[sel].copy()
            okk[0] = False  # the first row's stencil reaches below the (filtered) table: extrapolated from other rows
            if not (np.array_equal(p2[o2], np.asarray(p, dtype=float)[sel])
                    and np.allclose(a2[o2][okk], (lam_want / want)[sel][okk], rtol=1e-7, atol=0)):
                viol.append(V("diffusivity/tabulated-frame", f"from_table on a {tag}: tabulated alpha is not documented "
                              "lambda / c at that row's own pressure and saturation", case=case))
        ta = np.asarray(fl.pvt_props["alpha"], dtype=float)
        pr_, ar_ = np.asarray(fl_r.pvt_props["pressure"], dtype=float), np.asarray(fl_r.pvt_props["alpha"], dtype=float)
        o_ = np.argsort(pr_)
        if not (np.array_equal(pr_[o_], np.asarray(p, dtype=float)) and np.allclose(ar_[o_][ok], ta[ok], rtol=1e-9, atol=0)):
            viol.append(V("diffusivity/tabulated-row-order", "from_table on the same table listed by descending pressure "
                          "pairs pressures with other rows' diffusivity", case=case))
        if ok.any() and not np.allclose(ta[ok], (lam_want / want)[ok], rtol=1e-7, atol=0):
            viol.append(V("diffusivity/tabulated", "alpha tabulated by from_table is not documented lambda / c",
                          case=case))
    return {"violations": viol[:4], "outcome": case["family"],
            "key": (case["family"], case["grid"], case["So"], phi, Sw, case["rho"])}


def cases(tier, seed):
    fams = ["shipped", "shipped0", "constant", "invB-linear", "kinked", "vaporised", "swelling"]
    grids = (["uniform", "geometric", "irregular", "integer", "high"] if tier == "thorough"
             else ["uniform", "irregular", "integer", "high"])
    sos = [None, 0.05, 0.2, 0.5, 0.8]  # 0.05 and 0.2 are at/below the oil residual of some rel-perm sets
    phis = [0.005, 0.05, 0.1, 0.3]
    sws = [0.0, 0.1, 0.25]
    if seed:
        o = seed_offset(seed)
        sos.append(round(0.1 + 0.6 * o, 3))
        phis.append(round(0.02 + 0.3 * o, 3))
    out = []
    for fam, g, so, phi, sw, r in itertools.product(fams, grids, sos, phis, sws, range(len(RHOS))):
        if fam.startswith("shipped") and g != grids[0]:
            continue
        out.append({"family": fam, "grid": g if not fam.startswith("shipped") else "shipped", "So": so, "phi": phi, "Sw": sw,
                    "rho": r, "kr": (len(out) % len(KRS)), "seed": seed})
        if so in (0.05, 0.2) and phi == 0.1 and sw == 0.1:  # every rel-perm set with oil at/below residual
            out += [dict(out[-1], kr=k) for k in range(len(KRS)) if k != out[-1]["kr"]]
    return out


def run(ctx):
    cs = cases(ctx.tier, ctx.seed)
    res = ctx.pmap(evaluate, cs)
    live = [r for r in res if r.get("outcome") != "n/a"]
    cov = {
        "evaluations": len(live),
        "distinct_nontrivial": len({tuple(map(str, r["key"])) for r in res if r.get("key")}),
        "rule": "every PVT family (and the shipped oil+water table) x grid x saturation (table's own So(p) or "
                "fixed 0.2/0.5/0.8) x porosity x Sw x reference densities, each evaluated at every table pressure; "
                "non-trivial = distinct admissible combination (So + Sw <= 1)",
        "samples": samples_of(cs),
    }
    return ctx.finish("exploration", cov, [
        "documented storage function and mobility as transcribed in refmodels/multiphase.py",
        "the +-0.5 psi difference of the documented storage function on the same interpolants is the reference; "
        "the analytic slope of the generating functions is demanded to 2e-3 (interpolation error of the table, measured 1.9e-4)",
    ])


def replay(case):
    return evaluate(case)["violations"]
