"""C10 - results always reflect the most recent simulation (shape H, history BFS)."""

from __future__ import annotations

import itertools

import numpy as np

from .. import history, sim, tables
from ..common import V, samples_of

NX = 6
PROBES = np.array([-0.5, 0.0, 1e-3, 0.37, 1.0, 2.0, 2.5, 3.0, 10.0])
SIM_OPS = {"simA", "simA'", "simE", "simB", "simC", "simD", "simF", "simA+S1", "simB+S2", "resim", "bufB"}
# resim: simulate(obj.time) - the very array object of the stored run is passed back (same identity, same values; after a
#        field was reassigned the run must still be recomputed);  bufB: the stored time array is used as the caller's
#        buffer - overwritten in place with grid B's values and passed again (same identity, other values)
ALIAS_OPS = {"resim", "bufB"}
# simulate calls that are rejected: a schedule one entry short; a schedule of the right length whose last entry lies
# far outside the fluid table.  Both must raise and leave no trace
FAIL_OPS = {"simB+bad", "simB+oor"}
SET_OPS = {"setF", "setP"}  # public dataclass fields reassigned on the live object (toggles)
# setF: T_ship_gas changes fluid AND initial pressure; S_zdip changes the fluid only (same initial pressure: a key made
# of all scalar fields would not notice)
ALT = {"T_ship_gas": ("S_zdip", 6500.0), "S_zdip": ("T_ship_gas", 7000.0), "S_ideal": ("S_zlin", 7000.0)}
CONFIGS = [  # (class, table, p_f, p_i)
    ("single", "T_ship_gas", 1000.0, 8000.0),
    ("single", "S_zdip", 6000.0, 7000.0),
    ("ideal", "S_ideal", 1000.0, 8000.0),
]


def big(cfg):
    return cfg is not None and len(cfg) > 4 and cfg[4] == "big"


def grids(cfg=None):
    n = 128 if big(cfg) else 8  # the 'big' configuration: 60 nodes, 128 levels (staleness gated on size)
    # B has A's length AND A's end points: only the interior differs
    return {"A": sim.time_grid("quadratic", n, 2.0), "B": sim.time_grid("uniform", n, 2.0),
            # A' = A stretched by 4 ppm: same length, inside any default np.isclose band, a different run
            "A'": sim.time_grid("quadratic", n, 2.0) * (1 + 4e-6),
            "E": np.array([0.0]),  # a single time: no step is taken, the stored run is the initial state alone
            "C": sim.time_grid("geometric", 11, 0.0),
            "D": np.concatenate([[0.0], np.geomspace(0.5, 1e7, 15)]),  # runs to complete depletion (profile stops moving)
            # F has A's LENGTH and is depleted after a few steps (a field buffer reused for equal shapes, a loop that stops
            # stepping once nothing is left)
            "F": np.concatenate([[0.0], np.geomspace(0.5, 1e7, n - 1)])}


def schedules(p_f, p_i, n=8):
    f1 = np.interp(np.linspace(0, 7, n), np.arange(8), (0.5, 0.5, 0.4, 0.3, 0.3, 0.2, 0.1, 0.0))
    f2 = np.interp(np.linspace(0, 7, n), np.arange(8), (0.0, 0.6, 0.6, 0.2, 0.2, 0.9, 0.1, 0.1))
    return {"S1": p_f + (p_i - p_f) * f1, "S2": p_f + (p_i - p_f) * f2}


def alphabet(cls, with_set=True):
    if cls == "ideal":
        base = ["simA", "simA'", "simE", "simB", "simC", "simD", "simF", "resim", "bufB", "rf", "rf_density", "interp"]
    else:
        base = ["simA", "simA'", "simE", "simB", "simC", "simD", "simF", "simA+S1", "simB+S2", "resim", "bufB", "simB+bad", "simB+oor",
                "rf", "rf_density", "interp"]
    return base + (["setF", "setP"] if with_set else [])


def fresh(cfg, pre=()):
    """A new object; `pre` is a sequence of set-ops whose effect is folded into the CONSTRUCTOR arguments
    (not replayed as assignments: an object that caches something at construction must not hide a stale
    cache from the reference)."""
    cls, table, p_f, p_i = cfg[:4]
    from bluebonnet.flow import IdealReservoir, SinglePhaseReservoir  # noqa: PLC0415

    if sum(1 for o in pre if o == "setF") % 2:
        table, p_i = ALT[table]
    if sum(1 for o in pre if o == "setP") % 2:
        p_f = 0.5 * p_f
    fl = tables.fluid(table, p_i)
    return (IdealReservoir if cls == "ideal" else SinglePhaseReservoir)(60 if big(cfg) else NX, p_f, p_i, fl)


def apply(obj, op, cfg):
    """Apply one op; returns the observation (value or ('raise', ExceptionType))."""
    g = grids(cfg)
    if op == "setF":  # toggle between the configured fluid / initial pressure and an alternative pair
        cls, table, p_f, p_i = cfg[:4]
        t2, p2 = ALT[table]
        if obj.fluid is tables.fluid(table, p_i):  # (tables.fluid caches one object per (table, p_i))
            obj.fluid, obj.pressure_initial = tables.fluid(t2, p2), p2
        else:
            obj.fluid, obj.pressure_initial = tables.fluid(table, p_i), p_i
        return ("set", obj.pressure_initial)
    if op == "setP":
        cur = obj.pressure_fracface
        at_base = np.ndim(cur) == 0 and cur == cfg[2]
        obj.pressure_fracface = 0.5 * cfg[2] if at_base else cfg[2]
        return ("set", obj.pressure_fracface)
    try:
        if op in FAIL_OPS:  # grid B with a schedule that must be rejected and change nothing
            t = g["B"].copy()
            sch = schedules(cfg[2], cfg[3], len(t))["S2"].copy()
            if op == "simB+bad":
                sch = sch[:-1]
            else:
                sch[-1] = 1e7  # right length, last entry far above every table's highest pressure
            obj.simulate(t, sch)
            return ("sim", obj.time.copy(), obj.pseudopressure.copy())
        if op in ALIAS_OPS:
            t = vars(obj).get("time")
            if op == "resim":
                t = g["A"].copy() if t is None else t
            elif isinstance(t, np.ndarray) and t.shape == g["B"].shape and t.dtype == g["B"].dtype and t.flags.writeable:
                t[:] = g["B"]
            else:
                t = g["B"].copy()
            obj.simulate(t)
            return ("sim", obj.time.copy(), obj.pseudopressure.copy())
        if op in SIM_OPS:
            name, _, s = op.partition("+")
            t = g[name[3:]].copy()
            if s:
                obj.simulate(t, schedules(cfg[2], cfg[3], len(t))[s].copy())
            else:
                obj.simulate(t)
            return ("sim", obj.time.copy(), obj.pseudopressure.copy())
        if op == "rf":
            return ("val", np.array(obj.recovery_factor(), copy=True))
        if op == "rf_density":
            return ("val", np.array(obj.recovery_factor(density=True), copy=True))
        if op == "interp":
            return ("val", np.asarray(obj.recovery_factor_interpolator()(PROBES), dtype=float))
    except Exception as e:  # noqa: BLE001 - exception *types* are part of the observation
        return ("raise", type(e).__name__)
    raise KeyError(op)


def resolve(full, k):
    """The plain simulate op that an alias op at position k of `full` amounts to (rejected calls already removed)."""
    op = full[k]
    if op == "bufB":
        return "simB"
    if op != "resim":
        return op
    for o in reversed(full[:k]):
        if o in SIM_OPS and o != "resim":
            return "simB" if o == "bufB" else o.partition("+")[0]
    return "simA"


def build(hist, cfg, pre=()):
    obj = fresh(cfg, pre)
    obs = [apply(obj, op, cfg) for op in hist]
    return obj, obs


def obs_equal(a, b):
    if a[0] != b[0]:
        return False
    return history.same(list(a[1:]), list(b[1:]))


def key(obj):
    return history.canon(obj) + (("fluid", id(obj.fluid)),)


def stored(obj):
    d = vars(obj)
    return [d.get("time"), d.get("pseudopressure")]


def check_transition(hist, op, cfg):
    """Differential oracle: the object after hist+[op] against a fresh object that executes
    only the latest simulate and what followed it."""
    full = hist + [op]
    case = {"config": list(cfg), "history": list(full)}
    if op in FAIL_OPS:
        # the rejected call: an error, and the object is exactly what it was before the call
        live, _ = build(hist, cfg)
        key_before = key(live)
        d_b = {k_: (v_.copy() if isinstance(v_, np.ndarray) else v_) for k_, v_ in vars(live).items()}
        obs_live = [apply(live, op, cfg)]  # the SAME object before and after the rejected call
        out = []
        if obs_live[-1][0] != "raise":
            out.append(V("rejected-simulate/accepted", f"after {hist}, the simulate call {op} (schedule one entry short / far "
                         "outside the table) was accepted",
                         case=case))
        elif key(live) != key_before:
            d_l = vars(live)
            changed = sorted(k_ for k_ in set(d_l) | set(d_b) if history.canon_value(d_l.get(k_)) != history.canon_value(d_b.get(k_)))
            out.append(V("rejected-simulate/left-a-trace", f"after {hist}, the rejected simulate ({op}) "
                         f"raised {obs_live[-1][1]} but changed the object: {changed} differ from before the call - later "
                         "results would mix two runs", case=case))
        return out
    full_all = full
    full = [o for o in full if o not in FAIL_OPS]  # rejected calls leave no trace: the reference never makes them
    last_sim = max((i for i, o in enumerate(full) if o in SIM_OPS), default=-1)
    if op not in SIM_OPS and op not in SET_OPS and any(o in SET_OPS for o in full[last_sim + 1:]):
        # a read after a field was reassigned but before the next simulate: the stored run belongs to the old fields
        # and the statement ("results reflect the most recent simulation") says nothing about which scale applies
        return []
    sims = [i for i, o in enumerate(full) if o in SIM_OPS]
    k = sims[-1] if sims else 0
    live, obs_live = build(full_all, cfg)
    # the reference object executes only the latest simulate, the *recovery* calls made after it
    # (interpolator calls are pure reads and are dropped) and the call under observation
    pre = [o for o in full[:k] if o in SET_OPS]  # folded into the fresh object's constructor arguments
    ref_hist = [o for i, o in enumerate(full[k:]) if i == 0 or o != "interp"]
    if sims:
        ref_hist[0] = resolve(full, k)  # the reference passes a new array holding the same times
    if op == "interp" and len(full) - k > 1:
        ref_hist.append(op)
    ref, obs_ref = build(ref_hist, cfg, pre)
    ref_hist = [f"<constructed after {pre}>"] * bool(pre) + ref_hist
    out = []
    if not obs_equal(obs_live[-1], obs_ref[-1]):
        out.append(V("stale-state/returned-value",
                     f"after history {full_all} the last call observes {_short(obs_live[-1], obs_ref[-1])}; a fresh "
                     f"object running only {ref_hist} observes {_short(obs_ref[-1], obs_live[-1])}",
                     case=case, observed=_short(obs_live[-1], obs_ref[-1]),
                     expected=_short(obs_ref[-1], obs_live[-1]), tol=0))
    elif op in ("rf", "rf_density") and obs_live[-1][0] == "val":
        # a recovery value is a function of the latest simulation and the call's own arguments: earlier
        # recovery reads (with another density flag, say) must not leak into it
        alone_hist = [resolve(full, k + i) if o in ALIAS_OPS else o for i, o in enumerate(full[k:-1]) if o in SIM_OPS or o in SET_OPS] + [op]
        _, obs_alone = build(alone_hist, cfg, pre)
        if not obs_equal(obs_live[-1], obs_alone[-1]):
            out.append(V("stale-state/read-depends-on-earlier-read",
                         f"{op} after history {full} returns {_short(obs_live[-1], obs_alone[-1])}; the same call right "
                         f"after the latest simulate ({alone_hist}) returns {_short(obs_alone[-1], obs_live[-1])}",
                         case=case, observed=_short(obs_live[-1], obs_alone[-1]),
                         expected=_short(obs_alone[-1], obs_live[-1]), tol=0))
    if out:
        return out
    if not history.same(stored(live), stored(ref)) and obs_live[-1][0] != "raise":
        out.append(V("stale-state/stored-field",
                     f"stored time/pseudopressure after {full} differ from a fresh object running {ref_hist}",
                     case=case, tol=0))
    return out


def check_state(hist, cfg):
    """Repeating a read with the same arguments returns the same result, key unchanged."""
    out = []
    for op in ("rf", "rf_density", "interp"):
        obj, _ = build(hist, cfg)
        a = apply(obj, op, cfg)
        k1 = key(obj)
        b = apply(obj, op, cfg)
        k2 = key(obj)
        if not obs_equal(a, b) or k1 != k2:
            out.append(V("repeat-call", f"{op} applied twice after {hist} gives different results "
                         f"or changes state: {_short(a)} vs {_short(b)}",
                         case={"config": list(cfg), "history": hist + [op, op]}))
    return out


def _short(o, other=None):
    """Compact rendering; when `other` is given show the first differing entries."""
    if o[0] == "raise":
        return list(o)
    arr = np.asarray(o[-1], dtype=float).ravel()
    idx = np.arange(min(arr.size, 4))
    if other is not None and other[0] != "raise":
        oth = np.asarray(other[-1], dtype=float).ravel()
        if oth.size == arr.size:
            d = np.flatnonzero(~((arr == oth) | ((arr != arr) & (oth != oth))))
            if d.size:
                idx = d[:4]
        else:
            return [o[0], f"shape {np.asarray(o[-1]).shape}"]
    return [o[0], {int(i): float(arr[i]) for i in idx}]


def explore_config(case):
    cfg = tuple(case["config"])
    stats, viol = history.bfs(
        lambda h: build(h, cfg), alphabet(cfg[0]),
        lambda h, op: check_transition(h, op, cfg),
        lambda h: check_state(h, cfg), case["depth"], canon=key)
    viol.sort(key=lambda v: len(v["case"]["history"]))  # simplest first
    kinds = {}
    for v in viol:
        kinds[v["oracle"]] = kinds.get(v["oracle"], 0) + 1
    return {"violations": viol[:3], "stats": {k: stats[k] for k in
            ("states", "transitions", "depth_reached", "frontier_closed_before_bound")},
            "reps": [list(r) for r in stats["representatives"][-3:]], "outcome": list(kinds) or ["consistent"]}


HOLD_OPS = ["simA", "simB", "simC", "simA+S1", "rf", "rf_density", "interp"]


def explore_held(case):
    """Results handed out earlier stay what they were: every history over HOLD_OPS up to the depth bound is executed on
    one object while the harness HOLDS (without copying) everything the object handed out - the stored field after each
    simulate, each returned recovery array, each interpolator object - next to a snapshot taken at that moment; after
    every later call each held item must still equal its snapshot (interpolators are re-evaluated at the probe times).
    A later simulate that recycles the result buffer, a recovery array updated in place, an interpolator that reads the
    object's arrays when it is called all turn a result the caller still holds into the result of another run."""
    cfg = tuple(case["config"])
    g = grids(cfg)
    ops_ok = [o for o in HOLD_OPS if not (cfg[0] == "ideal" and "+" in o)]
    viol, n_hist, n_checks, outcomes = [], 0, 0, set()
    for depth in range(2, case["depth"] + 1):
        for hist in itertools.product(ops_ok, repeat=depth):
            if hist[0] not in SIM_OPS:
                continue  # reads before the first simulate raise: nothing is handed out
            n_hist += 1
            obj = fresh(cfg)
            held = []  # (position, kind, live object, snapshot)
            for k, op in enumerate(hist):
                if op in SIM_OPS:
                    name, _, sname = op.partition("+")
                    t = g[name[3:]].copy()
                    obj.simulate(t, schedules(cfg[2], cfg[3], len(t))[sname].copy()) if sname else obj.simulate(t)
                    new = [("field", obj.pseudopressure, np.array(obj.pseudopressure, copy=True))]
                elif op == "interp":
                    f = obj.recovery_factor_interpolator()
                    new = [("interpolator", f, np.array(f(PROBES), dtype=float, copy=True))]
                else:
                    r = obj.recovery_factor(density=(op == "rf_density"))
                    new = [("recovery", r, np.array(r, copy=True))]
                for pos, kind, live, snap in held:
                    n_checks += 1
                    try:
                        now = np.asarray(live(PROBES), dtype=float) if kind == "interpolator" else np.asarray(live)
                    except Exception as e:  # noqa: BLE001 - an interpolator that stops working after a later call
                        now = np.array([f"{type(e).__name__}"])
                    if not history.same(now, snap):
                        outcomes.add("held-result-changed")
                        viol.append(V("held-result-changed", f"history {list(hist[:k + 1])}: the {kind} handed out by call "
                                      f"{pos} ({hist[pos]}) changed when call {k} ({op}) was made - the caller's result of an "
                                      "earlier run now holds values of another run", case={"config": list(cfg), "held": True,
                                                                                           "history": list(hist[:k + 1])}))
                        break
                else:
                    held += [(k, *x) for x in new]
                    continue
                break
    outcomes = outcomes or {"held-results-stable"}
    viol.sort(key=lambda v: len(v["case"]["history"]))
    return {"violations": viol[:3], "reps": [], "outcome": sorted(outcomes),
            "stats": {"states": n_hist, "transitions": n_checks, "depth_reached": case["depth"], "frontier_closed_before_bound": True}}


PAIR_OPS = ["simA", "simB", "rf", "rf_density", "interp"]


def explore_pair(case):
    """Two live reservoirs used alternately: every observation on either object must equal what the same
    object observes when it executes its own calls alone (instances do not share state)."""
    import collections  # noqa: PLC0415

    cfgs = [tuple(case["configs"][0]), tuple(case["configs"][1])]
    alphabet2 = [(i, op) for i in (0, 1) for op in PAIR_OPS]

    def build2(hist):
        objs = [fresh(cfgs[0]), fresh(cfgs[1])]
        obs = [apply(objs[i], op, cfgs[i]) for i, op in hist]
        return objs, obs

    solo_cache = {}

    def solo(i, ops):
        k = (i, tuple(ops))
        if k not in solo_cache:
            solo_cache[k] = build(list(ops), cfgs[i])[1]
        return solo_cache[k]

    objs, _ = build2([])
    seen = {(key(objs[0]), key(objs[1])): ()}
    frontier = collections.deque([()])
    transitions, viol, closed = 0, [], True
    while frontier:
        hist = frontier.popleft()
        if len(hist) >= case["depth"]:
            closed = False
            continue
        for letter in alphabet2:
            nxt = hist + (letter,)
            transitions += 1
            objs, obs = build2(nxt)
            i, op = letter
            mine = [o for j, o in nxt if j == i]
            want = solo(i, mine)[-1]
            if not obs_equal(obs[-1], want):
                viol.append(V("instances-share-state", f"with two live reservoirs, history {list(nxt)} makes object {i} "
                              f"observe {_short(obs[-1], want)} for {op}; alone with {mine} it observes {_short(want, obs[-1])}",
                              case={"configs": case["configs"], "pair_history": [list(x) for x in nxt]}, tol=0))
            k2 = (key(objs[0]), key(objs[1]))
            if k2 not in seen:
                seen[k2] = nxt
                frontier.append(nxt)
    viol.sort(key=lambda v: len(v["case"]["pair_history"]))
    return {"violations": viol[:3], "stats": {"states": len(seen), "transitions": transitions,
                                              "depth_reached": max(len(v) for v in seen.values()),
                                              "frontier_closed_before_bound": closed},
            "reps": [], "outcome": ["pair-consistent" if not viol else "instances-share-state"]}


def observe(cfg, hist):
    """Last observation of a history on a fresh object, as a flat float array (called in fresh interpreters by
    common.purity_violations: the same list of histories in three orders, one interpreter per order)."""
    _, obs = build(list(hist), tuple(cfg))
    o = obs[-1]
    if o[0] == "raise":
        raise RuntimeError(o[1])
    return np.concatenate([np.asarray(x, dtype=float).ravel() for x in o[1:]])


def explore_orders(case):
    """Process-global state (a module-level memo keyed without the fluid, a class attribute) is invisible to every
    oracle above, because live and reference objects share the process.  Here every history of length <= depth over a
    reduced alphabet is run in fresh interpreters in three different orders; each must observe the same thing."""
    from ..common import purity_violations  # noqa: PLC0415

    cfg = list(case["config"])
    letters = ["simA", "simB", "setF", "setP", "rf", "rf_density", "interp"]
    hists = [list(h) for k in range(1, case["depth"] + 1) for h in itertools.product(letters, repeat=k)
             if h[-1] not in SET_OPS and any(x.startswith("sim") for x in h)
             and not any(a in ("rf", "rf_density", "interp") and b in ("rf", "rf_density", "interp") and a == b
                         for a, b in zip(h, h[1:]))]
    calls = [("history " + "->".join(h), "mc.props.c10:observe", (cfg, h)) for h in hists]
    # orders: forward, reverse, and every history that reassigns a field ON ITS OWN in a fresh interpreter (it is the
    # only user of its fluid / frac-face pressure, so in any joint order some other history populates global state first)
    n = len(calls)
    orders = [list(range(n)), list(range(n - 1, -1, -1))] + [[i] for i, h in enumerate(hists) if any(x in SET_OPS for x in h)]
    viol = purity_violations(calls, orders=orders, what="observation")
    for v in viol:
        v["oracle"] = "process-global-state"
        v["case"] = {"orders": True, "config": cfg, "depth": case["depth"], "call": v["case"]["call"]}
    return {"violations": viol[:3], "reps": [], "outcome": ["order-independent" if not viol else "process-global-state"],
            "stats": {"states": len(hists), "transitions": 2 * len(hists) + len(orders) - 2, "depth_reached": case["depth"],
                      "frontier_closed_before_bound": True}}


def explore_tlc(case):
    from .. import tlc_conf  # noqa: PLC0415

    if case.get("tlc") == "ext":  # the wider model (field reassignment, rejected calls); the edge list is sliced over workers
        part, parts = case.get("part", [0, 1])
        r = tlc_conf.conformance_ext(tuple(case["config"]), part, parts)
        t = r["tlc"]
        return {"violations": r["violations"], "tlc": t, "reps": [],
                "outcome": ["model-conformant" if not r["violations"] else "model-divergence"],
                "stats": {"states": t["model_states"] if part == 0 else 0, "transitions": t["edges_replayed"], "depth_reached": 6,
                          "frontier_closed_before_bound": True}}
    r = tlc_conf.conformance(tuple(case["config"]))
    t = r["tlc"]
    return {"violations": r["violations"], "tlc": t, "reps": [], "outcome": ["model-conformant" if not r["violations"] else "model-divergence"],
            "stats": {"states": t["model_states"], "transitions": t["model_edges"], "depth_reached": 3,
                      "frontier_closed_before_bound": True}}


def explore_any(case):
    if case.get("tlc"):
        return explore_tlc(case)
    if case.get("orders"):
        return explore_orders(case)
    if case.get("held"):
        return explore_held(case)
    return explore_pair(case) if "configs" in case else explore_config(case)


def run(ctx):
    depth = 9 if ctx.thorough else 4
    cs = [{"config": list(cfg), "depth": depth} for cfg in CONFIGS]
    pd = 5 if ctx.thorough else 4
    cs += [{"configs": [list(CONFIGS[0]), list(CONFIGS[0])], "depth": pd},
           {"configs": [list(CONFIGS[0]), list(CONFIGS[2])], "depth": pd}]
    cs += [{"configs": [list(CONFIGS[0]), list(CONFIGS[1])], "depth": pd}]  # two different single-phase fluids
    cs += [{"tlc": True, "config": list(CONFIGS[0])}, {"tlc": True, "config": list(CONFIGS[1])}]
    cs += [{"tlc": "ext", "config": list(c), "part": [k, 4]} for c in CONFIGS[:2] for k in range(4)]
    cs += [{"orders": True, "config": list(CONFIGS[0]), "depth": 3 if ctx.thorough else 2},
           {"orders": True, "config": list(CONFIGS[1]), "depth": 2}]
    cs += [{"held": True, "config": list(c), "depth": 4 if ctx.thorough else 3} for c in CONFIGS]
    # 60 nodes, 128 levels (staleness gated on the size of the run), explored to depth 2 / 3
    cs += [{"config": list(CONFIGS[0]) + ["big"], "depth": 3 if ctx.thorough else 2}]
    res = ctx.pmap(explore_any, cs, chunksize=1)
    per = [{"config": c.get("config") or c["configs"], **r["stats"]} for c, r in zip(cs, res) if "stats" in r]
    st = sum(p["states"] for p in per)
    tr = sum(p["transitions"] for p in per)
    reps = [{"config": c.get("config"), "history": h} for c, r in zip(cs, res) for h in r.get("reps", [])]
    cov = {
        "states": st, "transitions": tr,
        "traces_validated_against_impl": tr * 2 + st * 3,
        "samples": samples_of(reps), "depth_bound": depth, "per_config": per,
        "alphabet": {c[0]: alphabet(c[0]) for c in CONFIGS},
        "closed": all(p["frontier_closed_before_bound"] for p in per),
        "tlc_model": [r["tlc"] for r in res if "tlc" in r],
        "explanation": "every trace is executed on the real reservoir object; 'closed' = the reachable state "
                       "graph emptied the frontier before the depth bound, i.e. the exploration is complete for "
                       "this alphabet at any depth; setF/setP reassign public fields on the live object and the "
                       "reference object is constructed with the field values current at the latest simulate",
    }
    return ctx.finish("model_checking", cov, [
        "reservoir methods depend only on vars(obj) and their arguments (state-merging argument)",
        "FlowProperties objects shared between fresh objects are never written by the reservoir (checked by C09)",
    ])


def replay(case):
    if case.get("held"):
        return explore_held({"config": case["config"], "depth": len(case["history"])})["violations"]
    if case.get("tlc_ext"):
        return explore_tlc({"tlc": "ext", "config": case["config"]})["violations"]
    if "model_edge" in case:
        return explore_tlc({"config": case["config"]})["violations"]
    if "pair_history" in case:
        r = explore_pair({"configs": case["configs"], "depth": len(case["pair_history"])})
        return [v for v in r["violations"]]
    cfg = tuple(case["config"])
    h = list(case["history"])
    if len(h) >= 2 and h[-1] == h[-2] and h[-1] in ("rf", "rf_density", "interp"):
        vs = check_state(h[:-2], cfg)
        if vs:
            return vs
    return check_transition(h[:-1], h[-1], cfg)
