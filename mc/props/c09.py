"""C09 - flow-property wrapper: strictly increasing scaled pseudopressure, m_i consistency,
node diffusivity, bounded finite lookups, caller's table untouched, rejected inputs, rescale."""

from __future__ import annotations

import itertools
import warnings

import numpy as np

from .. import tables
from ..common import LCG, V, samples_of, seed_offset

LONG = ["pseudopressure", "compressibility", "pressure", "viscosity", "z-factor"]
SHORT = ["pressure", "pseudopressure", "alpha"]
SIMPLE = ["compressibility", "pressure", "viscosity"]
OUTSIDE = ("below", "above", "above-ulp", "above-ppb", "below-ppb", "below-ulp", "far-above", "far-below")


def get_table(name, container):
    if name == "T_lib":
        from bluebonnet.fluids import build_pvt_gas  # noqa: PLC0415

        df = build_pvt_gas({"N2": 0.01, "H2S": 0.0, "CO2": 0.02, "Gas Specific Gravity": 0.7,
                            "Reservoir Temperature (deg F)": 220.0}, "dry gas", maximum_pressure=6000)
        return df if container == "frame" else {c: df[c].to_numpy().copy() for c in df.columns}
    return tables.table(name, frame=(container == "frame"))


def thin(tb, container, seed=0):
    """An irregular subset of the rows (steps of 1..40 rows): a legal table with a NON-UNIFORM pressure grid.  A frame
    keeps its original index labels (a table filtered the usual way, df[mask], without reset_index)."""
    n = len(np.asarray(tb["pressure"]))
    g = LCG(seed + 17)
    idx = np.unique(np.minimum(np.cumsum([1 + int(40 * g.next() ** 3) for _ in range(n)]), n - 1))
    idx = idx[idx > 0]  # (drop row 0 as well: the index then does not start at 0)
    if container == "frame":
        return tb.iloc[idx]
    return {k: np.asarray(v)[idx].copy() for k, v in tb.items()}


def snapshot(tb):
    return [(str(k), str(np.asarray(tb[k]).dtype), np.asarray(tb[k]).shape, np.asarray(tb[k]).tobytes())
            for k in list(tb.keys())]


def p_i_choices(p, off):
    n = len(p)
    return {"first": float(p[0]), "node": float(p[n // 3]), "mid": float(0.5 * (p[n // 2] + p[n // 2 + 1])),
            "offnode": float(p[n // 4] + (0.1 + 0.8 * off) * (p[n // 4 + 1] - p[n // 4])),
            "last": float(p[-1]), "below": float(p[0] - 1.0), "above": float(p[-1] + 1.0),
            # just outside (inside any relative tolerance) and far outside
            "above-ulp": float(np.nextafter(p[-1], np.inf)), "above-ppb": float(p[-1] * (1 + 1e-9)),
            "below-ppb": float(p[0] * (1 - 1e-9)), "below-ulp": float(np.nextafter(p[0], -np.inf)),
            "far-above": float(10 * p[-1]), "far-below": float(-p[0])}


def construct(branch, tb, p_i):
    from bluebonnet.flow import flowproperties as fp  # noqa: PLC0415

    cls = fp.FlowPropertiesSimple if branch == "simple" else fp.FlowProperties
    with warnings.catch_warnings():
        warnings.simplefilter("ignore")
        return cls(tb, p_i)


def eval_construct(case):
    name, container, branch, where = case["table"], case["container"], case["branch"], case["where"]
    tb = get_table(name, container)
    if case.get("rows") == "irregular":
        tb = thin(tb, container, case.get("seed", 0))
    if case.get("units"):
        # the same table in another unit system: compressibility and viscosity scaled by constants (c mu ends up ten
        # decades smaller / larger) - positive properties all the same
        fc, fm = {"small": (1.45e-7, 1e-3), "large": (6.9e3, 1e3)}[case["units"]]
        tb = tb.copy() if container == "frame" else dict(tb)
        if "compressibility" in tb and "viscosity" in tb:
            tb["compressibility"] = np.asarray(tb["compressibility"], dtype=float) * fc
            tb["viscosity"] = np.asarray(tb["viscosity"], dtype=float) * fm
        if "alpha" in tb:
            tb["alpha"] = np.asarray(tb["alpha"], dtype=float) / (fc * fm)
    if branch == "simple" or (branch == "long" and "alpha" in tb):
        keep = SIMPLE if branch == "simple" else None
        if keep and not all(k in tb for k in keep):
            return {"violations": [], "outcome": "n/a"}
        if branch == "long" and "alpha" in tb:
            return {"violations": [], "outcome": "n/a"}
    if branch == "long" and not all(k in tb for k in LONG):
        return {"violations": [], "outcome": "n/a"}
    if branch == "simple" and case.get("both"):
        # the simple-liquid variant re-wrapping a table that already carries an 'alpha' column (e.g. another wrapper's
        # pvt_props after viscosity was updated): its diffusivity is still 1/(c mu) of the CURRENT columns
        stale = 3.0 / (np.asarray(tb["compressibility"]) * np.asarray(tb["viscosity"])) ** 0.5
        if container == "frame":
            tb = tb.copy()
        else:
            tb = dict(tb)
        tb["alpha"] = stale
    if branch == "alpha" and case.get("both"):  # all long columns AND a user alpha column: the user's alpha is used
        a_user = 3.0 / (np.asarray(tb["compressibility"]) * np.asarray(tb["viscosity"])) ** 0.5
        ok = np.asarray(tb["pseudopressure"]) > 0
        if container == "frame":
            tb = tb[ok].reset_index(drop=True) if case.get("rows") != "irregular" else tb[ok].copy()
            tb["alpha"] = a_user[ok]
        else:
            tb = {k: np.asarray(v)[ok] for k, v in tb.items()}
            tb["alpha"] = a_user[ok]
    elif branch == "alpha":
        if "alpha" not in tb:  # turn a long table into a user-alpha table
            a = 1.0 / (np.asarray(tb["compressibility"]) * np.asarray(tb["viscosity"]))
            ok = np.asarray(tb["pseudopressure"]) > 0  # precondition: positive properties (1/m is taken)
            if container == "frame":
                tb = tb[["pressure", "pseudopressure"]].copy()
                tb["alpha"] = a
                tb = tb[ok].reset_index(drop=True) if case.get("rows") != "irregular" else tb[ok]
            else:
                tb = {"pressure": np.asarray(tb["pressure"])[ok], "pseudopressure": np.asarray(tb["pseudopressure"])[ok],
                      "alpha": a[ok]}
    p = np.asarray(tb["pressure"], dtype=float)
    p_i = p_i_choices(p, case["off"])[where]
    snap = snapshot(tb)
    viol = []
    try:
        fl = construct(branch, tb, p_i)
    except Exception as e:  # noqa: BLE001 - the statement says "raise an error", whatever its type
        if where in OUTSIDE:
            ok = snapshot(tb) == snap
            return {"violations": [] if ok else [V("caller-table-modified", "a rejected construction modified the "
                                                   "caller's table", case=case)], "outcome": "rejected-outside"}
        return {"violations": [V("construct/unexpected-error", f"{type(e).__name__}: {e}", case=case)],
                "outcome": "error"}
    if where in OUTSIDE:
        return {"violations": [V("construct/outside-table-accepted", f"p_i={p_i} outside the table "
                                 f"[{p[0]}, {p[-1]}] was accepted (m_i={float(fl.m_i)!r})", case=case)],
                "outcome": "accepted-outside"}
    if snapshot(tb) != snap:
        viol.append(V("caller-table-modified", "construction modified the caller's table (keys, dtypes or bytes)",
                      case=case))
    pv = fl.pvt_props
    ms = np.array(pv["m-scaled"], dtype=float, copy=True)  # copies: pvt_props shares its arrays with the caller's dict
    al = np.array(pv["alpha"], dtype=float, copy=True)
    m_i = float(fl.m_i)
    if not np.all(np.diff(ms) > 0):
        viol.append(V("m-scaled/strictly-increasing", "scaled pseudopressure is not strictly increasing in pressure",
                      case=case))
    p_asc = np.sort(p)
    dense = np.unique(np.concatenate([p_asc, p_asc[:-1] + 0.3 * np.diff(p_asc), p_asc[:-1] + 0.7 * np.diff(p_asc)]))
    md = np.asarray(fl.m_scaled_func(dense), dtype=float)
    if not np.all(np.diff(md) > 0):
        k = int(np.argmin(np.diff(md)))
        viol.append(V("m-scaled/function-strictly-increasing", f"m_scaled_func is not strictly increasing between "
                      f"p={dense[k]:.6g} and {dense[k + 1]:.6g} (nodes and two interior points of every cell)", case=case))
    # the same function asked with whole-psi pressures of integer type (schedules are often integer arrays)
    qi = np.unique(np.floor(dense).astype(np.int64))
    qi = qi[(qi >= p_asc[0]) & (qi <= p_asc[-1])]
    if len(qi):
        try:
            mi_ = np.asarray(fl.m_scaled_func(qi), dtype=float)
            mf_ = np.asarray(fl.m_scaled_func(qi.astype(float)), dtype=float)
        except Exception as e:  # noqa: BLE001
            viol.append(V("m-scaled/query-type", f"m_scaled_func(int64 array) raises {type(e).__name__}: {e}", case=case))
        else:
            if mi_.shape != qi.shape or not np.allclose(mi_, mf_, rtol=1e-12, atol=0):
                k = int(np.argmax(np.abs(mi_ - mf_))) if mi_.shape == qi.shape else 0
                viol.append(V("m-scaled/query-type", f"m_scaled_func at the integer-typed pressure {int(qi[k])} gives {mi_.ravel()[k]!r}, at "
                              f"the same pressure as float64 {mf_.ravel()[k]!r}", case=case))
    got = float(fl.m_scaled_func(p_i))
    if not abs(got - m_i) <= 1e-14 * abs(m_i):
        viol.append(V("m_i/consistent", f"m_scaled_func(p_i)={got!r} but reported m_i={m_i!r}", case=case))
    ref = float(np.interp(p_i, p, ms))
    if not abs(ref - m_i) <= 1e-12 * abs(m_i):
        viol.append(V("m_i/at-p_i", f"m_i={m_i!r} is not the scaled pseudopressure at p_i ({ref!r})", case=case))
    if branch == "alpha":
        m = np.asarray(tb["pseudopressure"], dtype=float)
        k = int(np.clip(np.searchsorted(p, p_i) - 1, 0, len(p) - 2))
        bound = (m[k + 1] - m[k]) ** 2 / (4 * m[k] * m[k + 1])
        on_node = bool(np.any(p == p_i))
        if on_node and not abs(m_i - 1) <= 1e-12:
            viol.append(V("user-alpha/m_i-on-node", f"m_i={m_i!r}, expected 1 at a table node", case=case))
        if not (1 - 1e-12 <= m_i <= 1 + bound + 1e-12):
            viol.append(V("user-alpha/m_i-range", f"m_i={m_i!r} outside [1, 1 + {bound:.3g}]", case=case))
        if not np.allclose(al, np.asarray(tb["alpha"], dtype=float), rtol=1e-14, atol=0):
            viol.append(V("user-alpha/alpha-preserved", "tabulated alpha differs from the user's column", case=case))
    elif branch == "long":
        # scaled pseudopressure must be the table's pseudopressure times c mu z / (2 p) at p_i
        s = (np.asarray(tb["compressibility"]) * np.asarray(tb["viscosity"]) * np.asarray(tb["z-factor"])
             / (2 * p))
        s_i = float(np.interp(p_i, p, s))
        want = np.asarray(tb["pseudopressure"], dtype=float) * s_i
        if not np.allclose(ms, want, rtol=1e-12, atol=0):
            viol.append(V("m-scaled/scaling-factor", "m-scaled is not pseudopressure x c mu z/(2p) at p_i "
                          f"(max rel diff {np.max(np.abs(ms / want - 1)):.3g})", case=case))
    if branch in ("long", "simple"):
        want = 1.0 / (np.asarray(tb["compressibility"], dtype=float) * np.asarray(tb["viscosity"], dtype=float))
        if not np.allclose(al, want, rtol=1e-14, atol=0):
            viol.append(V("alpha/at-nodes", "alpha at table nodes is not 1/(compressibility x viscosity) "
                          f"(max rel diff {np.max(np.abs(al / want - 1)):.3g})", case=case))
    if branch == "simple" and not np.array_equal(ms, p):
        viol.append(V("simple/m-scaled", "simple variant: m-scaled is not the pressure", case=case))
    # lookups: any query, finite and within the table's positive range
    dm = np.diff(ms)
    q = np.concatenate([[-np.inf, -1e300, -1.0, 0.0, 1.0, 1e300, np.inf, m_i], ms[::50], ms[:-1] + 0.5 * dm,
                        ms[:-1] + 0.12 * dm, ms[:-1] + 0.88 * dm,
                        [ms[0], ms[-1], np.nextafter(ms[0], -np.inf), np.nextafter(ms[-1], np.inf)]])
    with np.errstate(all="ignore"):
        a = np.asarray(fl.alpha(q), dtype=float)
    lo, hi = al.min(), al.max()
    bad = ~np.isfinite(a) | (a < lo * (1 - 1e-12)) | (a > hi * (1 + 1e-12))
    if bad.any():
        k = int(np.flatnonzero(bad)[0])
        viol.append(V("lookup/finite-in-range", f"alpha({q[k]!r}) = {a[k]!r} outside the table's range "
                      f"[{lo!r}, {hi!r}] ({int(bad.sum())} of {len(q)} queries)", case=case, observed=float(a[k])))
    # the same look-up with integer-typed, Python-int and 0-d queries (the solver itself passes a 0-d m_i)
    for qi in (np.array([-1, 0, 1, 10**6], dtype=np.int64), 0, 1, np.array(m_i), np.float32(0.5) * np.float32(m_i)):
        try:
            with np.errstate(all="ignore"):
                ai = np.asarray(fl.alpha(qi), dtype=float)
                af = np.asarray(fl.alpha(np.asarray(qi, dtype=float)), dtype=float)
        except Exception as e:  # noqa: BLE001
            viol.append(V("lookup/query-type", f"alpha({qi!r}) raises {type(e).__name__}: {e}", case=case))
            break
        if ai.shape != np.shape(qi) or not np.allclose(ai, af, rtol=1e-6, atol=0) or np.any(ai < lo * (1 - 1e-12)) or np.any(ai > hi * (1 + 1e-12)):
            viol.append(V("lookup/query-type", f"alpha({qi!r}) = {ai.tolist()} but the same query as float64 gives {af.tolist()} "
                          f"(table range [{lo!r}, {hi!r}])", case=case))
            break
    at_nodes = np.asarray(fl.alpha(ms[::50]), dtype=float)
    if not np.allclose(at_nodes, al[::50], rtol=1e-12, atol=0):
        viol.append(V("lookup/at-nodes", "alpha looked up at table nodes differs from the tabulated alpha", case=case))
    ends = np.asarray(fl.alpha(ms[[0, -1]]), dtype=float)
    if not np.allclose(ends, al[[0, -1]], rtol=1e-12, atol=0):
        viol.append(V("lookup/at-end-nodes", f"alpha looked up exactly at the first/last node gives {ends.tolist()}, the "
                      f"tabulated values are {al[[0, -1]].tolist()}", case=case))
    if not lo > 0:
        viol.append(V("alpha/positive", f"min alpha {lo!r}", case=case))
    # the wrapper is self-contained: the owner overwriting its own arrays afterwards must not change it
    if container == "dict" and not viol:
        ms_q = np.array(ms[::25], copy=True)  # query points must not alias the table either
        before = (float(fl.m_scaled_func(p_i)), np.asarray(fl.alpha(ms_q), dtype=float).copy())
        saved = {k: np.array(v, copy=True) for k, v in tb.items()}
        for k in tb:
            if np.asarray(tb[k]).dtype.kind == "f":
                tb[k][...] = tb[k] * 1.37 + 11.0
        after = (float(fl.m_scaled_func(p_i)), np.asarray(fl.alpha(ms_q), dtype=float))
        for k in tb:
            tb[k][...] = saved[k]
        if before[0] != after[0] or not np.array_equal(before[1], after[1]):
            viol.append(V("wrapper-aliases-caller-arrays", "after the caller overwrote its own table arrays in place, the "
                          f"already built wrapper changed: m_scaled_func(p_i) {before[0]!r} -> {after[0]!r}", case=case))
        # the owner changes a column and builds a new wrapper from the SAME table object
        col = "alpha" if branch == "alpha" else "compressibility"
        if col in tb and np.asarray(tb[col]).dtype.kind == "f":
            tb[col][...] = saved[col] * 2.5
            try:
                fl2 = construct(branch, tb, p_i)
                a2 = np.asarray(fl2.pvt_props["alpha"], dtype=float)
                want2 = al * 2.5 if branch == "alpha" else al / 2.5
                if not np.allclose(a2, want2, rtol=1e-12, atol=0):
                    viol.append(V("rebuilt-from-modified-table", f"a wrapper rebuilt from the same table object after its "
                                  f"{col!r} column changed still tabulates the old diffusivity (max rel diff "
                                  f"{np.max(np.abs(a2 / want2 - 1)):.3g})", case=case))
            finally:
                tb[col][...] = saved[col]
    return {"violations": viol, "outcome": f"{branch}:{where}", "key": (name, container, branch, where, bool(case.get("both")), case.get("units"), case.get("rows"))}


def eval_missing(case):
    tb = get_table(case["table"], case["container"])
    cols = {"long": LONG, "alpha": SHORT, "simple": SIMPLE}[case["branch"]]
    if not all(k in tb for k in cols):
        return {"violations": [], "outcome": "n/a"}
    drop = case["drop"]
    if case["container"] == "frame":
        sub = tb[[c for c in cols if c != drop]].copy()
    else:
        sub = {c: tb[c] for c in cols if c != drop}
    p = np.asarray(tb["pressure"], dtype=float)
    try:
        construct(case["branch"], sub, float(p[len(p) // 2]))
    except Exception:  # noqa: BLE001 - "raise an error", whatever its type
        return {"violations": [], "outcome": "missing-rejected"}
    return {"violations": [V("missing-column/accepted", f"table without {drop!r} was accepted", case=case)],
            "outcome": "accepted"}


def eval_rescale(case):
    from bluebonnet.flow.flowproperties import rescale_pseudopressure  # noqa: PLC0415

    tb = get_table(case["table"], case["container"])
    if case.get("rows") == "irregular":
        tb = thin(tb, case["container"])
    p = np.asarray(tb["pressure"], dtype=float)
    p_f = p[0] + case["ff"] * (p[-1] - p[0])
    p_i = p[0] + case["fi"] * (p[-1] - p[0])
    if case.get("drop"):
        tb = tb.drop(columns=["pseudopressure"]) if case["container"] == "frame" else \
            {k: v for k, v in tb.items() if k != "pseudopressure"}
    snap = snapshot(tb)
    if case.get("drop") or not (p[0] <= p_f <= p[-1] and p[0] <= p_i <= p[-1]):
        what = "no pseudopressure column" if case.get("drop") else f"p_frac={p_f:.6g}, p_i={p_i:.6g} outside [{p[0]:.6g}, {p[-1]:.6g}]"
        try:
            rescale_pseudopressure(tb, p_f, p_i)
        except Exception:  # noqa: BLE001
            ok = snapshot(tb) == snap
            return {"violations": [] if ok else [V("caller-table-modified", "a rejected rescaling modified the caller's "
                                                   "table", case=case)], "outcome": "rescale-rejected"}
        return {"violations": [V("rescale/outside-table-accepted", f"rescale_pseudopressure accepted {what}", case=case)],
                "outcome": "rescale-accepted-outside"}
    try:
        out = rescale_pseudopressure(tb, p_f, p_i)
    except Exception as e:  # noqa: BLE001
        return {"violations": [V("rescale/error", f"rescale_pseudopressure on a {case['container']} raised "
                                 f"{type(e).__name__}: {e}", case=case)], "outcome": "rescale-error"}
    viol = []
    if snapshot(tb) != snap:
        viol.append(V("caller-table-modified", "rescaling modified the caller's table", case=case))
    m = np.asarray(out["pseudopressure"], dtype=float)
    at_f, at_i = np.interp(p_f, p, m), np.interp(p_i, p, m)
    if not (abs(at_f) <= 1e-12 and abs(at_i - 1) <= 1e-12):
        viol.append(V("rescale/endpoints", f"rescaled pseudopressure at p_f, p_i = {at_f!r}, {at_i!r} (want 0, 1)",
                      case=case))
    if not np.all(np.diff(m) * np.sign(p_i - p_f) > 0):  # p_frac > p_i (injection) maps to a decreasing scale
        viol.append(V("rescale/monotone", "rescaled pseudopressure is not strictly monotone from p_frac to p_i", case=case))
    for k in tb.keys():
        if k != "pseudopressure" and not np.array_equal(np.asarray(out[k]), np.asarray(tb[k])):
            viol.append(V("rescale/other-columns", f"column {k!r} changed", case=case))
            break
    return {"violations": viol, "outcome": "rescaled", "key": (case["table"], case["container"], case["ff"])}


def evaluate(case):
    return {"construct": eval_construct, "missing": eval_missing, "rescale": eval_rescale}[case["kind"]](case)


def cases(tier, seed):
    off = seed_offset(seed) if seed else 0.37
    tabs = ["T_ship_gas", "T_hay", "T_ship_oil", "T_lib", "S_ideal", "S_zdip", "A_const", "A_kink", "A_jump", "A_int"]
    if tier == "thorough":
        tabs += ["S_zlin", "A_rise", "A_fall", "A_kink1e3"]
    out = []
    wheres = ["first", "node", "mid", "offnode", "last"] + list(OUTSIDE)
    for t, c, b, w in itertools.product(tabs, ["frame", "dict"], ["long", "alpha", "simple"], wheres):
        out.append({"kind": "construct", "table": t, "container": c, "branch": b, "where": w, "off": off})
        if t in ("T_ship_gas", "T_ship_oil", "S_zdip", "A_kink", "A_int"):  # non-uniform pressure grid, non-default frame index
            out.append({"kind": "construct", "table": t, "container": c, "branch": b, "where": w, "off": off,
                        "rows": "irregular", "seed": seed})
    for t, c, b, w, u in itertools.product(["T_ship_gas", "T_ship_oil", "S_zdip", "A_kink"], ["frame", "dict"], ["long", "alpha", "simple"],
                                           ["node", "mid"], ["small", "large"]):
        out.append({"kind": "construct", "table": t, "container": c, "branch": b, "where": w, "off": off, "units": u})
    for t, c, w in itertools.product(["T_ship_gas", "S_zdip"], ["frame", "dict"], ["node", "mid", "last"]):
        out.append({"kind": "construct", "table": t, "container": c, "branch": "alpha", "where": w, "off": off, "both": True})
        out.append({"kind": "construct", "table": t, "container": c, "branch": "simple", "where": w, "off": off, "both": True})
    for t, c, b in itertools.product(["T_ship_gas", "A_kink"], ["frame", "dict"], ["long", "alpha", "simple"]):
        for drop in {"long": LONG, "alpha": SHORT, "simple": SIMPLE}[b]:
            out.append({"kind": "missing", "table": t, "container": c, "branch": b, "drop": drop})
    for t, c, (ff, fi) in itertools.product(["T_ship_gas", "T_ship_oil", "S_zdip", "A_kink", "A_int"], ["frame", "dict"],
                                           [(0.0, 1.0), (0.1, 0.8), (0.123456, 0.654321), (0.8, 0.2),
                                            (0.1, 1.2), (-0.01, 0.8), (0.5, 1.0 + 1e-9)]):  # the last three: outside the table
        out.append({"kind": "rescale", "table": t, "container": c, "ff": ff, "fi": fi})
        if 0 <= ff <= 1 and 0 <= fi <= 1:
            out.append({"kind": "rescale", "table": t, "container": c, "ff": ff, "fi": fi, "rows": "irregular"})
    for t, c in itertools.product(["T_ship_gas", "A_kink"], ["frame", "dict"]):
        out.append({"kind": "rescale", "table": t, "container": c, "ff": 0.1, "fi": 0.8, "drop": True})
    return out


def run(ctx):
    cs = cases(ctx.tier, ctx.seed)
    res = ctx.pmap(evaluate, cs)
    live = [r for r in res if r.get("outcome") != "n/a"]
    cov = {
        "evaluations": len(live),
        "distinct_nontrivial": len({tuple(r["key"]) for r in res if r.get("key")}),
        "rule": "one evaluation = one (table, container, branch, p_i position) construction with all clauses "
                "and every cell of the table queried at 3 interior points plus 40 out-of-range / node queries, one missing-column case or one rescale; non-trivial = distinct "
                "accepted construction or rescale (rejections and inapplicable combinations not counted)",
        "samples": samples_of(cs),
        "inapplicable_combinations": len(res) - len(live),
    }
    return ctx.finish("exploration", cov, [
        "tables have increasing pressure and positive properties (the property's precondition)",
        "user-alpha m_i bound between nodes: 1 + (b-a)^2/(4ab) for neighbouring pseudopressures a<b",
    ])


def replay(case):
    return evaluate(case)["violations"]
