"""C07 - density, formation volume factor and compressibility are mutually consistent for gas,
oil and water; gas viscosity is positive and increases with pressure."""

from __future__ import annotations

import itertools

import numpy as np

from ..common import V, samples_of, seed_offset
from ..refmodels import dak

K1_SIG = "C07:K1-compressibility-follows-published-coefficient-density-follows-A1*A2/Tr"
P_GAS = [5, 10, 14.7, 15, 50, 100, 300, 600, 1000, 2000, 3000, 5000, 8000, 11000, 14000]
REL_IDENT = 1e-12   # relations between two library functions
REL_CONST = 1e-4    # identities that carry a physical constant whose published precision varies (M_air, R)
REL_CORR = 1e-9     # identities whose constants ARE the named correlation (McCain brine polynomial, Standing's
                    # 62.37 gamma_o + 0.0136 gamma_g R_s): any association of the same polynomial is within a few ulp
REL_DERIV = 1e-4    # compressibility against a Richardson-extrapolated central difference


def _dlnrho_fd(f, p):
    """Richardson-extrapolated central difference of ln f at p."""
    h = 1e-3 * p

    def d(hh):
        return (np.log(f(p + hh)) - np.log(f(p - hh))) / (2 * hh)

    return (4 * d(h / 2) - d(h)) / 3


def eval_gas(case):
    from bluebonnet.fluids import gas  # noqa: PLC0415

    g, T, cont, dry = case["gravity"], case["T"], case["contaminants"], case["dryness"]
    nh = gas.make_nonhydrocarbon_properties(*cont)
    tpc, ppc = gas.pseudocritical_point_Sutton(g, nh, dry)
    tr = (T + 459.67) / (tpc + 459.67)
    if tr < 1.05 or tr > 3.0:
        return {"violations": [], "outcome": "outside-Tr-range", "evals": 0}
    viol, mus, rb = [], [], []
    M, R = 28.964 * g, 10.73159
    out = set()
    # the table pressures plus the upper part of the correlation's range, p_r = 22 .. 30
    ps = [float(p) for p in list(case["pressures"]) + [round(f * ppc, 3) for f in (22.0, 26.0, 30.0)] if p / ppc <= 30]
    ps = sorted(set(ps))
    for p in ps:
        c = dict(case, p=p)
        z = gas.z_factor_DAK(T, p, tpc, ppc)
        rho = gas.density_DAK(T, p, tpc, ppc, g)
        bg = gas.b_factor_DAK(T, p, tpc, ppc)
        cg = gas.compressibility_DAK(T, p, tpc, ppc)
        mu = gas.viscosity_Sutton(T, p, tpc, ppc, g)
        ref = p * M / (z * R * (T + 459.67))
        if not abs(rho / ref - 1) <= REL_CONST:
            viol.append(V("gas/real-gas-law", f"density {rho!r} vs p M/(Z R T) = {ref!r} with the library's own Z "
                          f"at p={p}", case=c, observed=rho, expected=ref, tol=REL_CONST))
        rb.append(rho * bg)
        fd = _dlnrho_fd(lambda q: gas.density_DAK(T, q, tpc, ppc, g), p)
        if not abs(cg / fd - 1) <= REL_DERIV:
            pr = p / ppc
            pub = dak.dlnrho_dp_reduced(z, tr, pr, "published") / ppc
            k1 = dak.dlnrho_dp_reduced(z, tr, pr, "K1") / ppc
            sig = K1_SIG if (abs(cg / pub - 1) <= 1e-9 and abs(fd / k1 - 1) <= 1e-5) else None
            out.add("cg-K1" if sig else "cg-other")
            viol.append(V("gas/compressibility-is-dlnrho-dp", f"c_g={cg:.6g} but d ln(rho)/dp={fd:.6g} "
                          f"({100 * (cg / fd - 1):+.2f}%) at T_r={tr:.3f}, p={p}", case=c, observed=cg, expected=fd,
                          tol=REL_DERIV, signature=sig))
        else:
            out.add("cg-consistent")
        if not mu > 0:
            viol.append(V("gas/viscosity-positive", f"mu_g={mu!r} at p={p}", case=c, observed=mu))
        mus.append(mu)
    if len(rb) > 1:
        rb = np.array(rb)
        spread = (rb.max() - rb.min()) / abs(rb.mean())
        if not spread <= REL_IDENT * 10:
            viol.append(V("gas/rho-Bg-pressure-independent", f"rho_g*B_g varies by {spread:.3g} (relative) over "
                          f"pressure: {rb.min()!r}..{rb.max()!r}", case=case, observed=float(spread), tol=REL_IDENT * 10))
        for t_sc, p_sc in ((68.0, 14.696), (60.0, 15.025), (0.0, 14.7), (32.0, 14.504)):  # other standard-condition bases passed explicitly (0 F: a value that is falsy)
            prod = [gas.density_DAK(T, q, tpc, ppc, g) * gas.b_factor_DAK(T, q, tpc, ppc, t_sc, p_sc) for q in ps[::4]]
            want_sc = M * p_sc / (R * (t_sc + 459.67) * 5.615)
            if not np.all(np.abs(np.array(prod) / want_sc - 1) <= REL_CONST):
                viol.append(V("gas/rho-Bg-standard-mass/other-base", f"with standard conditions ({t_sc} F, {p_sc} psia) "
                              f"rho_g*B_g = {prod[0]!r}, standard-condition mass content {want_sc!r}", case=case,
                              observed=float(prod[0]), expected=want_sc, tol=REL_CONST))
                break
        ref = M * 14.7 / (R * (60 + 459.67) * 5.615)
        if not abs(rb.mean() / ref - 1) <= REL_CONST:
            viol.append(V("gas/rho-Bg-standard-mass", f"rho_g*B_g={rb.mean()!r}, standard-condition mass content "
                          f"M p_sc/(R T_sc 5.615)={ref!r}", case=case, observed=float(rb.mean()), expected=ref,
                          tol=REL_CONST))
    # viscosity increases with pressure LOCALLY too: a dense geometric sweep of the isotherm from 5 psia to p_r = 30
    sweep = np.geomspace(5.0, 30.0 * ppc, 300)
    mu_s = np.array([gas.viscosity_Sutton(T, float(q), tpc, ppc, g) for q in sweep])
    ds = np.diff(mu_s)
    if not np.all(ds > 0):
        k = int(np.argmin(ds))
        viol.append(V("gas/viscosity-increasing/sweep", f"mu_g falls from {mu_s[k]:.9g} at p={sweep[k]:.6g} to {mu_s[k + 1]:.9g} at "
                      f"p={sweep[k + 1]:.6g} ({int(np.sum(ds <= 0))} of 299 steps of the isotherm sweep)", case=case,
                      observed=[float(mu_s[k]), float(mu_s[k + 1])]))
    d = np.diff(mus)
    if d.size and not np.all(d > 0):
        k = int(np.argmin(d))
        viol.append(V("gas/viscosity-increasing", f"mu_g falls from {mus[k]:.6g} at p={ps[k]} to {mus[k + 1]:.6g} "
                      f"at p={ps[k + 1]}", case=case, observed=[mus[k], mus[k + 1]]))
    return {"violations": viol, "outcome": sorted(out), "evals": len(ps), "key": (round(tr, 6), g),
            "rb_over_g": float(np.mean(rb)) / g if len(rb) else None, "case": case}


def eval_oil(case):
    from bluebonnet.fluids import oil  # noqa: PLC0415

    T, api, g, gor = case["T"], case["api"], case["gravity"], case["gor"]
    pb = oil.pressure_bubblepoint_Standing(T, api, g, gor)
    if not pb > 0:  # the quantifier is "positive bubble point" (light, low-GOR oils have p_b of a few psia)
        return {"violations": [], "outcome": "bubble-point<=0", "evals": 0}
    so = 141.5 / (131.5 + api)
    viol, vals = [], []
    for f in list(case["fractions"]) + [q / pb for q in case.get("absolute", [])]:
        p = f * pb
        rho = oil.density_Standing(T, p, api, g, gor)
        bo = oil.b_o_Standing(T, p, api, g, gor)
        rs = oil.solution_gor_Standing(T, p, api, g, gor)
        lhs, rhs = rho * bo, 62.37 * so + 0.0136 * g * rs
        vals.append(lhs - 0.0136 * g * rs)
        if not abs(lhs / rhs - 1) <= REL_CORR:
            viol.append(V("oil/rho-Bo-mass-content", f"rho_o*B_o={lhs!r} vs stock-tank oil + dissolved gas "
                          f"{rhs!r} at p={p:.6g} (p_b={pb:.6g})", case=dict(case, p=p), observed=lhs, expected=rhs,
                          tol=REL_CORR))
    # the same identity through the ARRAY forms, on one array that straddles the bubble point
    ps_all = np.array(sorted(f * pb for f in list(case["fractions"]) + [q / pb for q in case.get("absolute", [])]))
    try:
        rho_a = np.asarray(oil.density_Standing(T, ps_all.copy(), api, g, gor), dtype=float)
        bo_a = np.asarray(oil.b_o_Standing(T, ps_all.copy(), api, g, gor), dtype=float)
        rs_a = np.asarray(oil.solution_gor_Standing(T, ps_all.copy(), api, g, gor), dtype=float)
        rhs_a = 62.37 * so + 0.0136 * g * rs_a
        if not np.all(np.abs(rho_a * bo_a / rhs_a - 1) <= REL_CORR):
            k = int(np.argmax(np.abs(rho_a * bo_a / rhs_a - 1)))
            viol.append(V("oil/rho-Bo-mass-content/array", f"array forms on pressures straddling p_b={pb:.6g}: rho_o*B_o = "
                          f"{float(rho_a[k] * bo_a[k])!r} vs stock-tank oil + dissolved gas {float(rhs_a[k])!r} at p={ps_all[k]:.6g}",
                          case=case, observed=float(rho_a[k] * bo_a[k]), expected=float(rhs_a[k]), tol=REL_CORR))
    except Exception as e:  # noqa: BLE001
        viol.append(V("oil/rho-Bo-mass-content/array", f"array forms raise {type(e).__name__}: {e}", case=case))
    vals = np.array(vals)
    spread = (vals.max() - vals.min()) / abs(vals.mean())
    if not spread <= 1e-11:
        viol.append(V("oil/stock-tank-part-pressure-independent", f"rho_o*B_o - 0.0136 gamma_g R_s(p) varies by "
                      f"{spread:.3g} over pressure (uses the library's own R_s)", case=case, observed=float(spread),
                      tol=1e-11))
    return {"violations": viol, "outcome": "oil", "evals": len(case["fractions"]), "key": (T, api, g, gor)}


def eval_water(case):
    from bluebonnet.fluids import water  # noqa: PLC0415

    T, p, S = case["T"], case["p"], case["salinity"]
    lhs = water.density_water_McCain(T, p, S) * water.b_water_McCain(T, p)
    rhs = 62.368 + 0.438603 * S + 1.60074e-3 * S**2
    viol = []
    if not abs(lhs / rhs - 1) <= REL_CORR:
        viol.append(V("water/rho-Bw-brine-density", f"rho_w*B_w={lhs!r} vs brine density at standard conditions "
                      f"(McCain's polynomial) {rhs!r}", case=case, observed=lhs, expected=rhs, tol=REL_CORR))
    ref = water.density_water_McCain(T, 14.7, S) * water.b_water_McCain(T, 14.7)
    if not abs(lhs / ref - 1) <= REL_IDENT * 10:
        viol.append(V("water/rho-Bw-pressure-independent", f"rho_w*B_w differs between p={p} and 14.7 psia: "
                      f"{lhs!r} vs {ref!r}", case=case, observed=lhs, expected=ref, tol=REL_IDENT * 10))
    return {"violations": viol, "outcome": "water", "evals": 1, "key": (T, p, S)}


def eval_history(case):
    """Same T and p for several gases back to back, in three call orders (see common.purity_violations)."""
    from bluebonnet.fluids import gas  # noqa: PLC0415
    from ..common import purity_violations  # noqa: PLC0415

    calls = []
    for p in case["pressures"]:
        for g, cont, dry in case["gases"]:
            nh = gas.make_nonhydrocarbon_properties(*cont)
            tpc, ppc = gas.pseudocritical_point_Sutton(g, nh, dry)
            T = case["T"]
            G = "bluebonnet.fluids.gas:"
            calls += [("z_factor_DAK", G + "z_factor_DAK", (T, p, tpc, ppc)),
                      ("density_DAK", G + "density_DAK", (T, p, tpc, ppc, g)),
                      ("b_factor_DAK", G + "b_factor_DAK", (T, p, tpc, ppc)),
                      ("compressibility_DAK", G + "compressibility_DAK", (T, p, tpc, ppc)),
                      ("viscosity_Sutton", G + "viscosity_Sutton", (T, p, tpc, ppc, g))]
    viol = purity_violations(calls)
    for v in viol:
        v["case"] = dict(case, call=v["case"])
    return {"violations": viol[:3], "outcome": "history", "evals": len(calls) * 3}


def eval_gas_pair(case):
    a, b = eval_gas(case["a"]), eval_gas(case["b"])
    ra, rb = a["rb_over_g"], b["rb_over_g"]
    viol = []
    if not abs(ra - rb) <= 1e-11 * abs(rb):
        viol.append(V("gas/rho-Bg-state-independent", f"rho_g*B_g/gravity {ra!r} vs {rb!r}", case=case, observed=[ra, rb]))
    return {"violations": viol, "outcome": "pair", "evals": 2}


def evaluate(case):
    return {"gas": eval_gas, "gas-pair": eval_gas_pair, "oil": eval_oil, "water": eval_water, "history": eval_history}[case["phase"]](case)


def cases(tier, seed):
    thorough = tier == "thorough"
    off = seed_offset(seed)
    gravs = [0.55, 0.7, 0.9, 1.2] + ([0.6, 0.8, 1.0] if thorough else [])
    # 60 F with 14.7 psia in the pressure list is exactly the default standard state
    temps = [60.0, 80.0, 150.0, 250.0, 400.0, 550.0, 650.0] + ([115.0, 200.0, 325.0] if thorough else [])
    pgas = list(P_GAS) + ([25, 200, 450, 800, 1500, 2500, 4000, 6500, 9500, 12500] if thorough else [])
    if seed:
        gravs.append(round(0.55 + 0.65 * off, 4))
        temps.append(round(80 + 320 * ((off * 7) % 1), 2))
        pgas.append(round(15 + 13000 * ((off * 3) % 1), 1))
    out = []
    for g, T, cont, dry in itertools.product(gravs, temps, [(0.0, 0.0, 0.0), (0.03, 0.012, 0.018)],
                                              ["dry gas", "wet gas"]):
        out.append({"phase": "gas", "gravity": g, "T": T, "contaminants": list(cont), "dryness": dry,
                    "pressures": sorted(pgas)})
    apis = [12.0, 35.0, 55.0] + ([20.0, 45.0] if thorough else [])
    for T, api, g, gor in itertools.product([60.0, 80.0, 200.0, 350.0], apis, [0.56, 0.8, 1.3], [5.0, 20.0, 650.0, 2500.0]):
        out.append({"phase": "oil", "T": T, "api": api, "gravity": g, "gor": gor,
                    "fractions": [0.1, 0.5, 0.9, 1.0, 1.5, 2.5], "absolute": [5.0, 14.7, 15.0]})
    for T in ([150.0, 300.0] + ([80.0, 400.0] if thorough else [])):
        out.append({"phase": "history", "T": T, "pressures": [500.0, 3000.0, 9000.0],
                    "gases": [[0.6, [0.0, 0.0, 0.0], "dry gas"], [0.8, [0.03, 0.012, 0.018], "wet gas"],
                              [0.6, [0.0, 0.0, 0.0], "wet gas"], [1.0, [0.0, 0.05, 0.0], "dry gas"]]})
    sal = [0.0, 0.05, 0.5, 1.0, 2.0, 5.0, 15.0, 25.0] + ([round(25 * off, 3), round(off, 4)] if seed else [])
    for T, p, S in itertools.product([60.0, 200.0, 400.0], [14.7, 2000.0, 10000.0, 12000.0, 14000.0, 20000.0], sal):
        out.append({"phase": "water", "T": T, "p": p, "salinity": S})
    return out


def run(ctx):
    cs = cases(ctx.tier, ctx.seed)
    res = ctx.pmap(evaluate, cs)
    # rho_g*B_g is the standard-condition mass content M p_sc/(R T_sc): proportional to gravity and to nothing else,
    # so rho_g*B_g/gravity must be ONE number over every temperature, pressure, contaminant set and dryness
    rbs = [(r["rb_over_g"], r["case"]) for r in res if r.get("rb_over_g")]
    if rbs:
        lo, hi = min(rbs, key=lambda t: t[0]), max(rbs, key=lambda t: t[0])
        if not (hi[0] - lo[0]) <= 1e-11 * abs(hi[0]):
            ctx.add([V("gas/rho-Bg-state-independent", f"rho_g*B_g/gravity is {lo[0]!r} at T={lo[1]['T']} and {hi[0]!r} "
                       f"at T={hi[1]['T']} ({(hi[0] - lo[0]) / hi[0]:.3g} relative): the standard-condition mass "
                       "content depends on reservoir state", case={"phase": "gas-pair", "a": lo[1], "b": hi[1]},
                       observed=[lo[0], hi[0]], tol=1e-11)])
    cov = {
        "evaluations": sum(r.get("evals", 0) for r in res),
        "distinct_nontrivial": len({tuple(r["key"]) if isinstance(r["key"], (list, tuple)) else r["key"]
                                    for r in res if r.get("key") and r.get("evals")}),
        "rule": "one evaluation = one state point at which all identities of that phase are checked; "
                "non-trivial = distinct fluid (parameter tuple) inside the correlation range with >= 1 state point",
        "samples": samples_of(cs),
        "by_phase": {k: sum(1 for c in cs if c["phase"] == k) for k in ("gas", "oil", "water", "history")},
    }
    return ctx.finish("exploration", cov, [
        "identities carrying physical constants of varying published precision (M_air, R) are held to 1e-4; "
        "identities whose constants are the named correlation itself (McCain brine polynomial, Standing's "
        "62.37/0.0136 mass balance) to 1e-9; relations between two library functions to 1e-12 / 1e-11",
        "c_g violation is attributed to K1 only if c_g equals the published-coefficient formula at the "
        "library's density to 1e-9 AND the finite difference equals the analytic derivative of the "
        "K1-substituted EOS to 1e-5",
    ])


def replay(case):
    return evaluate(case)["violations"]
