"""C02 - convergence to the documented boundary-value problem along refinement ladders,
against the closed-form Fourier series (constant diffusivity) and an independent
method-of-lines reference (pressure-dependent diffusivity)."""

from __future__ import annotations

import functools

import numpy as np

from .. import sim, tables
from ..common import V, samples_of, seed_offset
from ..refmodels import fourier, mol

RATIO = 0.75
CAP = 6.0  # measured E*nx <= 1.42 over the thorough lattice
FLOOR = 2e-4  # below this both rungs are at the accuracy of the reference itself
PROBES = [0.05, 0.3, 1.0, 3.0]
T_END = 3.0


def ladder(tier, closed_form):
    rungs = [(20, 400), (40, 1600), (80, 6400)]  # (10,100) is pre-asymptotic (field ratio 0.71)
    if tier == "thorough":
        rungs.append((160, 25600))
    return rungs


def cases(tier, seed):
    ratios = [0.0125, 0.5, 0.875, 0.99]
    if seed:
        ratios.append(round(0.05 + 0.9 * seed_offset(seed), 4))
    out = []
    for r in ratios:
        out.append({"cls": "ideal", "table": None, "p_f": r * 8000.0, "p_i": 8000.0, "ref": "fourier"})
    for r in ratios:  # ideal reservoir with a (real-gas) fluid attached: same closed form
        out.append({"cls": "ideal", "table": "T_ship_gas", "p_f": r * 8000.0, "p_i": 8000.0, "ref": "fourier"})
    for r in ratios:
        out.append({"cls": "single", "table": "A_const", "p_f": r * 8000.0, "p_i": 8000.0, "ref": "fourier"})
    tabs = ["T_ship_gas", "S_zdip", "A_rise", "A_fall", "A_kink"]
    if tier == "thorough":
        tabs += ["T_hay", "T_lib", "S_zlin", "A_kink1e3", "A_jump"]
    for tab in tabs:
        for r in ratios:
            out.append({"cls": "single", "table": tab, "p_f": r * 8000.0, "p_i": 8000.0, "ref": "mol"})
    # initial pressure BETWEEN table rows, on the 10-psi tables and on a coarse table (500-psi rows): whatever is
    # looked up "at initial conditions" must be interpolated, not read from a neighbouring row
    for tab, p_f, p_i in (("T_ship_gas", 4000.0, 7703.7), ("S_zdip", 1000.0, 6033.3), ("T_ship_gas@50", 2000.0, 7700.0),
                          ("A_kink@40", 1500.0, 7777.0)):
        out.append({"cls": "single", "table": tab, "p_f": p_f, "p_i": p_i, "ref": "mol"})
    for r in (ratios[1], ratios[-1]):  # the two-phase class runs the same solver through its own simulate()
        out.append({"cls": "two", "table": "T_ship_gas", "p_f": r * 8000.0, "p_i": 8000.0, "ref": "mol"})
    for c in out:
        c["tier"] = tier
    return out


@functools.lru_cache(maxsize=None)
def reference(table, p_f, p_i, t_key):
    """Independent reference in the normalised variable w: nodes x, fields W(t), cumulative flux
    F(t)/plateau, in-place recovery from the table's density column (if present)."""
    t_eval = np.array(t_key)
    tb = tables.table(table)
    p = tb["pressure"]
    m = tb["pseudopressure"]
    alpha_col = tb["alpha"] if "alpha" in tb else 1.0 / (tb["compressibility"] * tb["viscosity"])
    m_f, m_i = np.interp(p_f, p, m), np.interp(p_i, p, m)
    w_nodes = (m - m_f) / (m_i - m_f)
    a_i = np.interp(1.0, w_nodes, alpha_col)
    al = mol.AlphaTable(w_nodes, alpha_col / a_i)
    x, W = mol.solve(al, t_eval, N=400)
    F = mol.cumulative_flux(al, W)
    plateau = float(al.psi(np.array([0.0]))[0])
    rfd = None
    if "density" in tb:
        rho = np.interp(W, w_nodes, tb["density"])
        h = x[1] - x[0]
        mass = h * (rho.sum(axis=1) - 0.5 * (rho[:, 0] + rho[:, -1]))
        rho_i = np.interp(1.0, w_nodes, tb["density"])
        rho_f = np.interp(0.0, w_nodes, tb["density"])
        rfd = (1.0 - mass / rho_i, 1.0 - rho_f / rho_i)
    return x, W, F, plateau, rfd


LATE_TARGET = 1e-7   # the late-time ladder runs until the exact solution has relaxed to this fraction of the drawdown
LATE_RATIO, LATE_FLOOR, LATE_CAP = 0.75, 0.02, 1.0  # measured: |e| = 0.63 / 0.21 at the last rung, ratios 0.49..0.63


@functools.lru_cache(maxsize=None)
def late_reference(ref, table, p_f, p_i):
    """(T, w_ref): the time at which the exact outer-boundary value has decayed to about LATE_TARGET of the
    drawdown, and that value (closed form, or the method-of-lines reference integrated that far)."""
    if ref == "fourier":
        T = float(np.log(4 / np.pi / LATE_TARGET) / (np.pi**2 / 4))
        return T, float(fourier.field(np.array([1.0]), T)[0])
    tb = tables.table(table)
    p, m = tb["pressure"], tb["pseudopressure"]
    alpha_col = tb["alpha"] if "alpha" in tb else 1.0 / (tb["compressibility"] * tb["viscosity"])
    m_f, m_i = np.interp(p_f, p, m), np.interp(p_i, p, m)
    w_nodes = (m - m_f) / (m_i - m_f)
    al = mol.AlphaTable(w_nodes, alpha_col / np.interp(1.0, w_nodes, alpha_col))
    ts = np.geomspace(0.5, 5e4, 60)
    _, W = mol.solve(al, np.concatenate([[0.0], ts]), N=200, rtol=1e-7, atol=1e-13)
    amp = W[1:, -1]
    k = int(np.argmax(amp < LATE_TARGET))
    if not amp[k] < LATE_TARGET:
        return None, None
    T = float(ts[k])
    _, W = mol.solve(al, np.array([0.0, T]), N=400, rtol=1e-9, atol=1e-14)
    return T, float(W[1, -1])


def late_ladder(case, rungs):
    """log of (simulated / exact) outer-boundary value at a time when the exact solution has relaxed to
    ~1e-7 of the drawdown: the time-stepping error of the decay rate, which must vanish under refinement.  A
    solver that stops relaxing early, or whose linear-solve error competes with the remaining drawdown, shows
    up here as a constant offset of several units while the early-time errors above stay within their bounds."""
    T, w_ref = late_reference(case["ref"], case["table"], case["p_f"], case["p_i"])
    if T is None:
        return None
    es = []
    for nx, nt in rungs:
        t = sim.time_grid("quadratic", nt, T)
        res = sim.make_reservoir(case["cls"], nx, case["p_f"], case["p_i"], case["table"])
        res.simulate(t)
        m_f, m_i = sim.frac_values(res, case["cls"], case["p_f"], None, len(t))
        w = (float(np.asarray(res.pseudopressure)[-1, -1]) - m_f[0]) / (m_i - m_f[0])
        es.append(float(np.log(max(w, 1e-300) / w_ref)))
    return {"T": T, "w_ref": w_ref, "log_ratio": es}


MIX_CAP = 4.0  # measured D * nx_coarse <= 1.07 over the thorough lattice


def mixed_refinement(case, tier):
    """Few, very large time steps (dt/dx^2 up to 1e7): on ONE time grid the space grid is refined 4x at a time and
    the coarser field is compared with the finer one (node j against the finer field on [x_j - 1.5h, x_j + 1.5h]).
    First-order convergence in each variable separately bounds that difference by C h_coarse whatever the step size;
    a scheme that treats long steps differently on fine grids (sub-cycling, capped mesh ratios, a switch of solver)
    breaks it while every ladder with dt ~ h^2 above stays clean."""
    nxs = [25, 100, 400, 1600] + ([6400] if tier == "thorough" else [])
    nts = [3, 7, 25] + ([97] if tier == "thorough" else [])
    worst, viol, states = 0.0, [], 0
    for nt in nts:
        t = sim.time_grid("uniform", nt, T_END)
        U = {}
        for nx in nxs:
            res = sim.make_reservoir(case["cls"], nx, case["p_f"], case["p_i"], case["table"])
            res.simulate(t)
            m_f, m_i = sim.frac_values(res, case["cls"], case["p_f"], None, len(t))
            U[nx] = (np.asarray(res.pseudopressure) - m_f[0]) / (m_i - m_f[0])
            states += nt
        for a, b in zip(nxs[:-1], nxs[1:]):
            h = 1.0 / a
            xa = (np.arange(a) + 1) * h
            xb = np.concatenate([[0.0], (np.arange(b) + 1) / b])
            d = max(float(interval_distance(U[a][i], xa - 1.5 * h, xa + 1.5 * h, xb,
                                            np.concatenate([[0.0], U[b][i]])).max()) for i in range(1, nt))
            worst = max(worst, d * a)
            if d > MIX_CAP / a and len(viol) < 2:
                viol.append(V("convergence/mixed-refinement", f"on a uniform {nt}-level grid to t={T_END} (dt/dx^2 up to "
                              f"{(t[1] - t[0]) * b * b:.3g}) the nx={a} field differs from the nx={b} field by {d:.4g} of the "
                              f"drawdown; first-order convergence in space allows {MIX_CAP}/nx = {MIX_CAP / a:.4g}",
                              case=case, observed=d, tol=MIX_CAP / a))
    return viol, worst, states


def interval_distance(u, x_lo, x_hi, xr, wr):
    """Distance from u_j to the range of the (monotone in x) reference on [x_lo_j, x_hi_j]."""
    lo = np.interp(np.clip(x_lo, 0, 1), xr, wr)
    hi = np.interp(np.clip(x_hi, 0, 1), xr, wr)
    return np.maximum(0.0, np.maximum(lo - u, u - hi))


def run_rung(case, nx, nt, grid="quadratic", probes=None, reuse=None):
    t = sim.time_grid(grid, nt, T_END)
    if reuse is not None:  # the SAME object refined in place: the public field nx is reassigned before the next run
        res = reuse
        res.nx = nx
    else:
        res = sim.make_reservoir(case["cls"], nx, case["p_f"], case["p_i"], case["table"])
    res.simulate(t)
    m_f, m_i = sim.frac_values(res, case["cls"], case["p_f"], None, len(t))
    draw = m_i - m_f[0]
    u = (np.asarray(res.pseudopressure) - m_f[0]) / draw
    idx = [int(np.argmin(np.abs(t - tp))) for tp in (probes or PROBES)]
    ridx = sorted(set(np.unique(np.round(np.linspace(0, 1, 41) ** 2 * (nt - 1)).astype(int)).tolist() + idx))
    te = t[ridx]
    rf_all = np.asarray(res.recovery_factor(), dtype=float).copy()
    rf = rf_all[ridx]
    # the documented sequence simulate -> recovery_factor() -> recovery_factor_interpolator(): the wrapped curve is the
    # recovery factor that was just returned
    via_interp = np.asarray(res.recovery_factor_interpolator()(t), dtype=float)
    interp_dev = float(np.max(np.abs(via_interp - rf_all))) / max(float(np.max(np.abs(rf_all))), 1e-300)
    scale_rf = (1 - case["p_f"] / case["p_i"]) if case["cls"] == "ideal" else draw
    has_density = case["cls"] == "single" and "density" in res.fluid.pvt_props
    rfd = np.asarray(res.recovery_factor(density=True), dtype=float)[ridx] if has_density else None
    h = 1.0 / nx
    xj = (np.arange(nx) + 1) * h
    if case["ref"] == "fourier":
        xr = np.linspace(0, 1, 2001)
        W = {i: fourier.field(xr, t[i]) for i in idx}
        F = fourier.recovery(te)
        plateau, ref_rfd = 1.0, None
    else:
        xr, Wall, Fall, plateau, ref_rfd = reference(case["table"], case["p_f"], case["p_i"], tuple(te.tolist()))
        W = {i: Wall[ridx.index(i)] for i in idx}
        F = Fall
    e_field = 0.0
    for i in idx:
        d = interval_distance(u[i], xj - 1.5 * h, xj + 1.5 * h, xr, W[i])
        e_field = max(e_field, float(d.max()))
    e_rf = float(np.max(np.abs(rf / scale_rf - F))) / plateau
    e_rfd = None
    if rfd is not None and ref_rfd is not None:
        e_rfd = float(np.max(np.abs(rfd - ref_rfd[0]))) / ref_rfd[1]
    return {"nx": nx, "nt": nt, "E_field": e_field, "E_rf": e_rf, "E_rfd": e_rfd, "interp_dev": interp_dev, "res": res if reuse is not None else None,
            "rf_end": float(rf[-1] / scale_rf / plateau)}


def evaluate(case):
    rungs = ladder(case["tier"], case["ref"] == "fourier")
    L = [run_rung(case, nx, nt) for nx, nt in rungs]
    viol = []
    worst_i = max(r["interp_dev"] for r in L)
    if worst_i > 1e-12:
        viol.append(V("convergence/interpolator-is-the-curve", f"the interpolator built after recovery_factor() differs from that "
                      f"recovery factor at the simulated times by {worst_i:.3g} (relative)", case=case, observed=worst_i))
    # the first two rungs again on ONE object whose nx is reassigned between the runs: same errors as fresh objects
    obj = sim.make_reservoir(case["cls"], rungs[0][0], case["p_f"], case["p_i"], case["table"])
    for k in (0, 1):
        r2 = run_rung(case, rungs[k][0], rungs[k][1], reuse=obj)
        if any(abs(r2[key_] - L[k][key_]) > 1e-12 + 1e-9 * abs(L[k][key_]) for key_ in ("E_field", "E_rf")):
            viol.append(V("convergence/refined-in-place", f"the same object with nx reassigned to {rungs[k][0]} gives errors "
                          f"(field {r2['E_field']:.4g}, recovery {r2['E_rf']:.4g}); a fresh object with that nx gives "
                          f"({L[k]['E_field']:.4g}, {L[k]['E_rf']:.4g})", case=case))
            break
    for key in ("E_field", "E_rf", "E_rfd"):
        es = [r[key] for r in L]
        if es[0] is None:
            continue
        for k in range(len(es) - 1):
            if es[k + 1] > max(RATIO * es[k], FLOOR):
                viol.append(V(f"convergence/ratio/{key}",
                              f"{key} does not shrink under refinement: {es[k]:.4g} at (nx,nt)={rungs[k]} -> "
                              f"{es[k + 1]:.4g} at {rungs[k + 1]} (needs <= {RATIO} x); ladder {[round(e, 5) for e in es]}",
                              case=case, observed=es, tol=RATIO))
                break
        lim = 2 * es[-1] - es[-2]  # first-order Richardson estimate of the error's limit: must vanish
        if lim > 0.5 * es[-1] + FLOOR:
            viol.append(V(f"convergence/limit/{key}", f"{key} extrapolates to {lim:.4g} under refinement (ladder "
                          f"{[round(e, 5) for e in es]}): the scheme converges to something else than the documented "
                          "problem (measured <= 0.24 E_last)", case=case, observed=lim, tol=0.5 * es[-1] + FLOOR))
        if es[-1] > CAP / rungs[-1][0]:
            viol.append(V(f"convergence/cap/{key}", f"{key} = {es[-1]:.4g} at {rungs[-1]} exceeds the first-order "
                          f"cap {CAP}/nx = {CAP / rungs[-1][0]:.4g}; ladder {[round(e, 5) for e in es]}", case=case,
                          observed=es, tol=CAP / rungs[-1][0]))
    # the same ladder on UNIFORM time grids against the exact reference (field at t >= 0.3 only: the start-up of a uniform
    # grid is pre-asymptotic; the flux-based recovery on uniform grids carries the documented start-up artefact)
    LU = [run_rung(case, nx, nt, grid="uniform", probes=[0.3, 1.0, 3.0]) for nx, nt in rungs]
    eu = [r["E_field"] for r in LU]
    # (falling diffusivity at large drawdown crosses zero error on the coarsest rung: the ratio is demanded at the last
    # refinement only; measured there <= 0.78, and E nx <= 1.35 ideal / 0.41 single-phase)
    if eu[-1] > max(0.85 * eu[-2], FLOOR):
        viol.append(V("convergence/uniform-grid/ratio", f"on uniform time grids the field error does not shrink at the last "
                      f"refinement: {eu[-2]:.4g} at {rungs[-2]} -> {eu[-1]:.4g} at {rungs[-1]}; ladder {[round(e, 5) for e in eu]}",
                      case=case, observed=eu, tol=0.85))
    if eu[-1] > 2.5 / rungs[-1][0]:
        viol.append(V("convergence/uniform-grid/cap", f"on uniform time grids the field error {eu[-1]:.4g} at {rungs[-1]} exceeds "
                      f"2.5/nx; ladder {[round(e, 5) for e in eu]}", case=case, observed=eu, tol=2.5 / rungs[-1][0]))
    late = late_ladder(case, rungs)
    if late:
        es = [abs(e) for e in late["log_ratio"]]
        msg = (f"at t={late['T']:.4g} the exact outer-boundary value is {late['w_ref']:.3g} of the drawdown; "
               f"ln(simulated/exact) along the ladder {rungs} is {[round(e, 4) for e in late['log_ratio']]}")
        if es[-1] > max(LATE_RATIO * es[-2], LATE_FLOOR):
            viol.append(V("convergence/late-time/ratio", msg + f": does not shrink by {LATE_RATIO} at the last refinement",
                          case=case, observed=late["log_ratio"], tol=LATE_RATIO))
        elif abs(2 * late["log_ratio"][-1] - late["log_ratio"][-2]) > 0.5 * es[-1] + 0.05:
            viol.append(V("convergence/late-time/limit", msg + ": extrapolates to a non-zero limit", case=case,
                          observed=late["log_ratio"]))
        if es[-1] > LATE_CAP * 80 / rungs[-1][0]:
            viol.append(V("convergence/late-time/cap", msg + f": exceeds {LATE_CAP * 80 / rungs[-1][0]:.3g} at the last rung",
                          case=case, observed=late["log_ratio"]))
    mv, mix_worst, mix_states = mixed_refinement(case, case["tier"])
    viol += mv
    nsteps = sum(nt for _, nt in rungs) * (2 if late else 1) + mix_states
    for r in L:
        r.pop("res", None)
    return {"violations": viol, "ladder": L, "late": late, "mix_worst": mix_worst, "uniform_ladder": eu, "states": nsteps, "transitions": nsteps - len(rungs),
            "outcome": "ratio<=%.1f" % (np.ceil(10 * max((L[k + 1]["E_rf"] / max(L[k]["E_rf"], 1e-300))
                                                         for k in range(len(L) - 1))) / 10)}


def run(ctx):
    cs = cases(ctx.tier, ctx.seed)
    res = ctx.pmap(evaluate, cs, chunksize=1)
    worst_ratio = {}
    for key in ("E_field", "E_rf", "E_rfd"):
        rs = []
        for r in res:
            L = r.get("ladder") or []
            for k in range(len(L) - 1):
                if L[k][key] and L[k][key] > FLOOR:
                    rs.append(L[k + 1][key] / L[k][key])
        worst_ratio[key] = max(rs) if rs else None
    cov = {
        "evaluations": sum(len(r.get("ladder") or []) for r in res),
        "distinct_nontrivial": sum(1 for r in res if r.get("ladder") and r["ladder"][-1]["rf_end"] > 0.05),
        "rule": "one evaluation = one (configuration, rung) simulation compared with its exact reference; a "
                "configuration is non-trivial when the reference recovery at the horizon exceeds 5% of its plateau",
        "samples": samples_of([{**c, "ladder": r.get("ladder")} for c, r in zip(cs, res)]),
        "configurations": len(cs), "time_levels_simulated": sum(r.get("states", 0) for r in res),
        "worst_refinement_ratio": worst_ratio,
        "worst_mixed_refinement_D_nx": max((r.get("mix_worst", 0) for r in res), default=None),
        "late_time_ladders": sum(1 for r in res if r.get("late")),
        "worst_late_log_ratio_last": max((abs(r["late"]["log_ratio"][-1]) for r in res if r.get("late")), default=None),
        "worst_Exnx_last": max((r["ladder"][-1]["E_rf"] * r["ladder"][-1]["nx"]) for r in res if r.get("ladder")),
    }
    return ctx.finish("exploration", cov, [
        "closed-form Fourier series (4000 terms) and a 400-cell BDF method-of-lines reference (rtol 1e-9, "
        "validated against the series to 1e-5) are exact for the purpose of a 2e-4 floor",
        "node j is compared with the reference on [x_j - 1.5h, x_j + 1.5h], x_j=(j+1)/nx: any O(h) node convention",
        "asymptotic statement decided on a finite ladder: ratio <= 0.75 per rung and E_last <= 6/nx",
        "mixed refinement: uniform grids of 3/7/25(/97) levels to t=3, nx = 25 -> 100 -> 400 -> 1600(-> 6400); the "
        "coarser field is within 4/nx of the finer one (measured 1.07/nx)",
        "late-time ladder: the same rungs run until the exact outer-boundary value is ~1e-7 of the drawdown; "
        "|ln(simulated/exact)| must shrink by 0.75 at the last refinement, extrapolate to 0 and stay below 1 "
        "(measured 0.63 ideal / 0.21 single-phase at nx=80)",
    ])


def replay(case):
    return evaluate(case)["violations"]
