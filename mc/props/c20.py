"""C20 - the plotting helpers draw exactly the simulated data; the square-root axis transform is
the square root and it and its inverse are mutual inverses on non-negative values."""

from __future__ import annotations

import itertools
import warnings

import numpy as np

from .. import sim, tables
from ..common import V, samples_of, seed_offset


def reservoir(which, n):
    if which == "gas-schedule":  # frac-face pressure stepped down over time
        res = sim.make_reservoir("single", 15, 4000.0, 8000.0, "T_ship_gas")
        t = sim.time_grid("quadratic", n, 3.0)
        res.simulate(t, sim.schedule("stepdown", n, 4000.0, 8000.0, 10.0))
        return res
    if which == "ideal":
        res = sim.make_reservoir("ideal", 12, 500.0, 5000.0, None)
    else:
        res = sim.make_reservoir("single", 15, 1000.0, 8000.0, "T_ship_gas")
    res.simulate(sim.time_grid("quadratic", n, 3.0))
    return res


def lines_of(ax):
    return [(np.asarray(l.get_xdata(), dtype=float), np.asarray(l.get_ydata(), dtype=float)) for l in ax.get_lines()]


def same(a, b):
    return a.shape == b.shape and np.array_equal(a, b, equal_nan=True)


def close(a, b, ulps=8):
    """Equal up to a few ulp (derived quantities: node positions, rescaled profiles, gradients may be computed
    by an arithmetically equivalent expression); NaN equals NaN."""
    if a.shape != b.shape:
        return False
    with np.errstate(all="ignore"):
        ok = np.abs(a - b) <= ulps * np.finfo(float).eps * np.maximum(np.abs(a), np.abs(b))
    return bool(np.all(ok | (np.isnan(a) & np.isnan(b)) | (a == b)))


def rate_close(got, want, rf, t):
    """A difference quotient of recovery: any algebraically equivalent form differs by rounding of rf divided by the step,
    i.e. a few eps (|rf_i| + |rf_i+1|) / min(h) - not by a relative 1e-12 of the (possibly tiny) rate itself."""
    if got.shape != want.shape:
        return False
    h = np.diff(t)
    hmin = np.minimum(np.concatenate([[h[0]], h]), np.concatenate([h, [h[-1]]]))
    scale = np.abs(rf) + np.concatenate([np.abs(rf[1:]), [abs(rf[-1])]]) + np.concatenate([[abs(rf[0])], np.abs(rf[:-1])])
    with np.errstate(all="ignore"):
        tol = 16 * np.finfo(float).eps * scale / np.where(hmin > 0, hmin, np.inf) + 1e-12 * np.abs(want)
        ok = (np.abs(got - want) <= tol) | (np.isnan(got) & np.isnan(want)) | (got == want)
    return bool(np.all(ok))


def eval_profiles(case):
    import matplotlib.pyplot as plt  # noqa: PLC0415

    from bluebonnet import plotting  # noqa: PLC0415

    res = reservoir(case["res"], case["n"])
    every, rescale = case.get("every", 200), case["rescale"]
    fig, ax = plt.subplots()
    viol = []
    try:
        with warnings.catch_warnings(), np.errstate(all="ignore"):
            warnings.simplefilter("ignore")
            kw = dict(case.get("kwargs") or {})
            if case.get("default_every"):
                out = plotting.plot_pseudopressure(res, rescale=rescale, ax=None if case.get("own_axes") else ax, **kw)
                every = 200
            else:
                out = plotting.plot_pseudopressure(res, every=every, rescale=rescale,
                                                   ax=None if case.get("own_axes") else ax, **kw)
        got = lines_of(out)
        if case.get("own_axes") and out is ax:
            viol.append(V("profiles/own-axes", "ax=None did not create the helper's own axes", case=case))
        u = np.asarray(res.pseudopressure, dtype=float)
        x = np.linspace(1 / res.nx, 1, res.nx)
        pinit = u[0, -1]
        want = []
        with np.errstate(all="ignore"):
            for i in range(0, len(u), every):
                want.append((u[i] - u[i, 0]) / (pinit - u[i, 0]) if rescale else u[i])
        if len(got) != len(want):
            viol.append(V("profiles/count", f"{len(got)} curves drawn, expected every {every}-th of {len(u)} profiles = "
                          f"{len(want)}", case=case, observed=len(got), expected=len(want)))
        else:
            for k, ((gx, gy), wy) in enumerate(zip(got, want)):
                if not close(gx, x):
                    viol.append(V("profiles/node-positions", f"curve {k}: x data is not linspace(1/nx, 1, nx)", case=case))
                    break
                if not (close(gy, np.asarray(wy, dtype=float)) if rescale else same(gy, np.asarray(wy, dtype=float))):
                    viol.append(V("profiles/data", f"curve {k} (profile {k * every}) does not carry the "
                                  f"{'rescaled ' if rescale else ''}pseudopressure profile "
                                  f"(max diff {np.nanmax(np.abs(gy - wy)):.3g})", case=case))
                    break
        if not same(u, np.asarray(res.pseudopressure)):
            viol.append(V("profiles/reservoir-modified", "plotting modified the stored field", case=case))
    finally:
        plt.close(fig)
        plt.close("all")
    return {"violations": viol, "outcome": "profiles", "key": ("p", case["res"], case["n"], every, rescale, bool(case.get("kwargs")), bool(case.get("own_axes")))}


def eval_recovery(case):
    import matplotlib.pyplot as plt  # noqa: PLC0415

    from bluebonnet import plotting  # noqa: PLC0415

    viol = []
    for kind in ("factor", "rate"):
        res = reservoir(case["res"], case["n"])
        rf = np.asarray(res.recovery_factor(), dtype=float).copy()
        t = np.asarray(res.time, dtype=float)
        if case.get("history") == "density-first" and case["res"] != "ideal":
            res.recovery_factor(density=True)  # a different curve is now cached on the object
        fig, ax = plt.subplots()
        try:
            with warnings.catch_warnings(), np.errstate(all="ignore"):
                warnings.simplefilter("ignore")
                f = plotting.plot_recovery_factor if kind == "factor" else plotting.plot_recovery_rate
                out = f(res, ax=ax, change_ticks=case["ticks"])
            got = lines_of(out)
            with np.errstate(all="ignore"):
                wy = rf if kind == "factor" else np.gradient(rf, t)
            if len(got) != 1:
                viol.append(V(f"recovery-{kind}/count", f"{len(got)} curves drawn, expected 1", case=case))
            elif not (same(got[0][0], t) and (same(got[0][1], np.asarray(wy, dtype=float)) if kind == "factor"
                                              else rate_close(got[0][1], np.asarray(wy, dtype=float), rf, t))):
                viol.append(V(f"recovery-{kind}/data", f"the drawn curve is not (scaled time, "
                              f"{'recovery factor' if kind == 'factor' else 'time derivative of recovery'})", case=case))
            if kind == "factor" and out.get_xscale() != "squareroot":
                viol.append(V("recovery-factor/scale", f"x scale is {out.get_xscale()!r}", case=case))
        finally:
            plt.close(fig)
    return {"violations": viol, "outcome": "recovery", "key": ("r", case["res"], case["ticks"], case.get("history"))}


def eval_comparison(case):
    import matplotlib.pyplot as plt  # noqa: PLC0415
    import pandas as pd  # noqa: PLC0415
    from lmfit import Parameters  # noqa: PLC0415

    from bluebonnet.flow import FlowProperties, SinglePhaseReservoir  # noqa: PLC0415
    from bluebonnet.forecast import plot_production_comparison  # noqa: PLC0415

    pvt = tables.hay(frame=True, pmax=14_000.0)
    n, tau, M, p_i = 40, case["tau"], case["M"], 7000.0
    press = np.linspace(5000.0, 1500.0, n)
    gas = 10.0 + np.arange(n) % 7
    if case["filter"]:
        gas[[4, 9]] = 0.0
        press[13] = np.nan
    days = np.arange(n) * 1.0
    if case.get("days") == "irregular":  # gapped reporting that does not start at day 0
        days = 30.0 + np.cumsum(1.0 + (np.arange(n) % 5 == 0) * 2.0)
    prod = pd.DataFrame({"Days": days, "Gas": gas, "Pressure": press})
    prm = Parameters()  # as returned by a fit: the current value is not the initial value
    prm.add("M", 0.9 * M)
    prm.add("tau", 1.3 * tau)
    prm.add("p_initial", p_i + 250.0)
    prm["M"].value, prm["tau"].value, prm["p_initial"].value = M, tau, p_i
    if case.get("index") == "offset":     # a slice of a longer history: labels 100, 101, ...
        prod.index = np.arange(n) + 100
    elif case.get("index") == "dup":      # two files concatenated
        prod.index = np.concatenate([np.arange(n // 2), np.arange(n - n // 2)])
    viol = []
    with warnings.catch_warnings():
        warnings.simplefilter("ignore")
        fig, (ax1, ax2) = plot_production_comparison(prod, pvt, prm, filter_window_size=case["window"],
                                                     filter_zero_prod_days=case["filter"], well_name="W")
    try:
        keep = (gas > 0) & ~np.isnan(press) if case["filter"] else np.ones(n, dtype=bool)
        pk = press[keep]
        if case["window"] and case["window"] > 1:
            from scipy.ndimage import uniform_filter1d  # noqa: PLC0415

            pk = uniform_filter1d(pk, size=case["window"])
        time = np.arange(keep.sum()) if case["filter"] else days
        fl = FlowProperties(pvt, p_i)
        res = SinglePhaseReservoir(80, pk, p_i, fl)
        res.simulate(time / tau, pressure_fracface=pk)
        rf = np.asarray(res.recovery_factor(), dtype=float)
        l1, l2 = lines_of(ax1), lines_of(ax2)
        ts = np.asarray(time / tau, dtype=float)
        if len(l1) != 2 or len(l2) != 1:
            viol.append(V("comparison/count", f"{len(l1)} + {len(l2)} curves, expected 2 + 1", case=case))
        else:
            if not (close(l1[0][0], ts) and np.allclose(l1[0][1], rf, rtol=1e-10, atol=1e-14)):
                viol.append(V("comparison/simulated-recovery", "first curve is not (time/tau, simulated recovery)", case=case))
            if not (close(l1[1][0], ts) and np.allclose(l1[1][1], np.cumsum(gas[keep]) / M, rtol=1e-13, atol=0)):
                viol.append(V("comparison/cumulative-over-M", "second curve is not (time/tau, cumulative production / M)",
                              case=case))
            # raw pressures are data (bitwise); a boxcar average is a derived quantity (a few ulp)
            pk_ok = close(l2[0][1], np.asarray(pk, dtype=float), ulps=16) if case["window"] and case["window"] > 1 \
                else same(l2[0][1], np.asarray(pk, dtype=float))
            if not (close(l2[0][0], ts) and pk_ok):
                viol.append(V("comparison/pressure", "pressure curve is not (time/tau, frac-face pressure)", case=case))
    finally:
        plt.close(fig)
    return {"violations": viol, "outcome": "comparison", "key": ("c", tau, M, case["filter"], case["window"], case.get("days"))}


def eval_transform(case):
    """The transform pair as matplotlib obtains and uses it: from the registered scale of an Axes, through BOTH
    entry points (`transform`, and `transform_non_affine`, which is what composite transforms such as
    ax.transData call), and once through the Axes' own data <-> display round trip."""
    import matplotlib.pyplot as plt  # noqa: PLC0415

    import bluebonnet.plotting  # noqa: F401, PLC0415  (registers the scale)

    a = np.array(case["values"], dtype=case["dtype"])
    eps = np.finfo(a.dtype).eps
    viol = []
    fig, ax = plt.subplots()
    try:
        ax.set_xscale("squareroot")
        ax.set_yscale("squareroot")
        fw = ax.xaxis.get_transform()
        inv = fw.inverted()
        keep = a.copy()
        want = np.sqrt(a.astype(np.float64))
        small = a[a.astype(np.float64) < 0.5 * np.sqrt(float(np.finfo(a.dtype).max))]
        for entry in ("transform", "transform_non_affine"):
            with np.errstate(all="ignore"):
                f, g = getattr(fw, entry), getattr(inv, entry)
                s = np.asarray(f(a))
                s_again = np.asarray(f(a))
                if not np.array_equal(a, keep):
                    viol.append(V("transform/input-modified", f"{entry}: the transform overwrote the array it was given", case=case))
                    a = keep.copy()
                if not np.array_equal(s, s_again, equal_nan=True):
                    viol.append(V("transform/repeatable", f"{entry}: transforming the same array twice gives different results", case=case))
                b = s.copy()
                g(b)
                if not np.array_equal(b, s, equal_nan=True):
                    viol.append(V("transform/input-modified", f"{entry}: the inverse transform overwrote the array it was given", case=case))
                if s.shape != a.shape or not np.all(np.abs(s - want) <= 2 * eps * want):
                    viol.append(V("transform/is-square-root", f"{entry}({a.tolist()}) = {s.tolist()}", case=case))
                    continue
                back = np.asarray(g(s), dtype=float)
                ok = np.abs(back - a) <= 8 * eps * np.abs(a.astype(np.float64)) + 5e-324
                if back.shape != a.shape or not np.all(ok):
                    viol.append(V("transform/inverse-of-forward", f"inverse.{entry}(forward.{entry}(x)) != x at "
                                  f"{a[~ok].tolist()[:4]} -> {back[~ok].tolist()[:4]}", case=case))
                sq = np.asarray(g(small), dtype=float)
                there = np.asarray(f(sq), dtype=float)
                good = (sq > 100 * float(np.finfo(a.dtype).tiny)) | (small == 0)  # squares that underflow are outside 'exact mutual inverses'
                ok2 = np.abs(there - small) <= 8 * eps * np.abs(small.astype(np.float64))
                if not np.all(ok2[good]):
                    viol.append(V("transform/forward-of-inverse", f"forward.{entry}(inverse.{entry}(x)) != x at "
                                  f"{small[good & ~ok2].tolist()[:4]}", case=case))
                twice = np.asarray(getattr(inv.inverted(), entry)(keep), dtype=float)
                if not np.array_equal(twice, np.asarray(s, dtype=float), equal_nan=True):
                    viol.append(V("transform/inverse-of-inverse", f"{entry}: inverted().inverted() is not the square root again",
                                  case=case))
        # the Axes' own round trip data -> display -> data on a square-root x and y axis
        pts = a.astype(np.float64)
        pts = pts[np.isfinite(pts) & (pts > 0) & (pts < 1e12) & (pts > 1e-12)]
        if pts.size:
            hi = float(pts.max())
            ax.set_xlim(0.0, hi)
            ax.set_ylim(0.0, hi)
            xy = np.column_stack([pts, pts[::-1]])
            rt = ax.transData.inverted().transform(ax.transData.transform(xy))
            if not np.allclose(rt, xy, rtol=1e-9, atol=1e-12 * hi):
                k = int(np.argmax(np.abs(rt - xy).max(axis=1)))
                viol.append(V("transform/axes-round-trip", f"on a square-root axis data -> display -> data maps {xy[k].tolist()} to "
                              f"{rt[k].tolist()}: the inverse the Axes uses is not the inverse of the transform it uses", case=case))
    finally:
        plt.close(fig)
    return {"violations": viol[:4], "outcome": "transform", "key": ("t", case["dtype"], len(case["values"]))}


def evaluate(case):
    return {"profiles": eval_profiles, "recovery": eval_recovery, "comparison": eval_comparison,
            "transform": eval_transform}[case["kind"]](case)


def cases(tier, seed):
    n = 23
    out = []
    everys = [1, 2, 3, 7, n, n + 5] + ([5, 11, 22] if tier == "thorough" else [])
    if seed:
        everys.append(2 + int(17 * seed_offset(seed)))
    for r, e, rs in itertools.product(["ideal", "gas", "gas-schedule"], everys, [False, True]):
        out.append({"kind": "profiles", "res": r, "n": n, "every": e, "rescale": rs})
    # rarely used arguments (axis limits and line styling must not touch the data), the helper's own axes, and a long run
    # (5001 levels as in the documentation notebooks) with the default stride of 200
    for r, rs in itertools.product(["ideal", "gas"], [False, True]):
        out.append({"kind": "profiles", "res": r, "n": n, "every": 3, "rescale": rs,
                    "kwargs": {"x_max": 0.5, "y_max": 0.7, "plot_kwargs": {"linewidth": 0.5, "linestyle": "--"}}})
        out.append({"kind": "profiles", "res": r, "n": n, "every": 2, "rescale": rs, "kwargs": {"x_max": 2.0}, "own_axes": True})
        out.append({"kind": "profiles", "res": r, "n": 5001, "rescale": rs, "default_every": True})
        # many profiles on one axes: a small stride on a longer run (every k-th profile means every k-th, however many)
        out.append({"kind": "profiles", "res": r, "n": 240, "every": 1, "rescale": rs})
        out.append({"kind": "profiles", "res": r, "n": 240, "every": 2, "rescale": rs})
        out.append({"kind": "profiles", "res": r, "n": 1501, "every": 3, "rescale": rs})
    for r in ["ideal", "gas"]:
        out.append({"kind": "recovery", "res": r, "n": 5001, "ticks": False, "history": None})
    for r, tk, h in itertools.product(["ideal", "gas"], [False, True], [None, "density-first"]):
        out.append({"kind": "recovery", "res": r, "n": n, "ticks": tk, "history": h})
    for tau, M, flt, w in itertools.product([25.0, 90.0], [1300.0, 8e4], [True, False], [None, 1, 3]):
        out.append({"kind": "comparison", "tau": tau, "M": M, "filter": flt, "window": w})
        if w is None:
            out.append({"kind": "comparison", "tau": tau, "M": M, "filter": flt, "window": w, "days": "irregular"})
            if tau == 25.0 and M == 1300.0:
                out += [{"kind": "comparison", "tau": tau, "M": M, "filter": flt, "window": w, "index": ix} for ix in ("offset", "dup")]
    vals = [0.0, 5e-324, 1e-300, 1e-8, 0.25, 1.0, 2.0, 1e8, 1e300]
    out.append({"kind": "transform", "dtype": "f8", "values": vals})
    out.append({"kind": "transform", "dtype": "f4", "values": [0.0, 1e-30, 1e-8, 0.25, 1.0, 2.0, 1e8, 1e30]})
    out.append({"kind": "transform", "dtype": "f8", "values": [float(x) for x in np.geomspace(1e-12, 1e12, 97)]})
    return out


def run(ctx):
    cs = cases(ctx.tier, ctx.seed)
    res = ctx.pmap(evaluate, cs, nproc=8)
    cov = {
        "evaluations": len(cs),
        "distinct_nontrivial": len({tuple(map(str, r["key"])) for r in res if r.get("key")}),
        "rule": "profiles: reservoir x stride x rescale; recovery / rate: reservoir x tick setting; comparison "
                "figure: tau x M x filter x window; transform: float64 / float32 arrays from 0 and denormals to "
                "1e300; every drawn Line2D is read back from the Axes; non-trivial = distinct figure or array",
        "samples": samples_of(cs),
    }
    return ctx.finish("exploration", cov, [
        "matplotlib's Line2D stores the arrays it was given (read back with get_xdata/get_ydata)",
        "transform(inverse(x)) is only demanded where x^2 neither underflows nor overflows",
    ])


def replay(case):
    return evaluate(case)["violations"]
