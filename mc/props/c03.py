"""C03 - mass conservation: flux-based and in-place recovery describe the same quantity, start
at zero, are monotone while the frac-face pressure does not rise, and respect the physical
ceiling 1 - rho(min p_f)/rho(p_i); ideal-gas recovery plateaus at 1 - p_f/p_i."""

from __future__ import annotations

import itertools

import numpy as np

from .. import sim, tables
from ..common import V, samples_of, seed_offset

GAP_C = 2.5      # G_k <= GAP_C / nx_k  (measured 1.2/nx on exact tables)
RATIO = 0.75
DELTA_W = 1.5    # admitted widening per unit of the table's own measured inconsistency
T_END = 3.0
RATIOS = [0.0125, 0.5, 0.875, 0.99, 0.99875]


def ladder(tier):
    return [(20, 400), (40, 1600), (80, 6400)] + ([(160, 25600)] if tier == "thorough" else [])


def inconsistency(tb, p_lo, p_hi):
    """The table's own departure from thermodynamic consistency on [p_lo, p_hi], measured on its
    grid: c vs d ln(rho)/dp, m' vs 2p/(mu z), spread of rho z / p."""
    o = np.argsort(tb["pressure"])
    tb = {k: np.asarray(v)[o] for k, v in tb.items()}
    p = tb["pressure"]
    sel = (p >= p_lo - 1e-9) & (p <= p_hi + 1e-9)
    if sel.sum() < 5:
        sel = (p >= p_lo - 30) & (p <= p_hi + 30)
    lnrho = np.log(tb["density"])
    dln = np.gradient(lnrho, p)
    d1 = np.max(np.abs(tb["compressibility"][sel] / dln[sel] - 1))
    dm = np.gradient(tb["pseudopressure"], p)
    d2 = np.max(np.abs(dm[sel] * tb["viscosity"][sel] * tb["z-factor"][sel] / (2 * p[sel]) - 1))
    k = tb["density"][sel] * tb["z-factor"][sel] / p[sel]
    d3 = (k.max() - k.min()) / k.mean()
    return float(max(d1, d2, d3))


def cases(tier, seed):
    out = []
    ratios = list(RATIOS)
    if seed:
        ratios.append(round(0.03 + 0.95 * seed_offset(seed), 5))
    for r in ratios:
        out.append({"cls": "ideal", "table": None, "p_f": r * 8000.0, "p_i": 8000.0, "sched": "scalar",
                    "tier": tier})
        out.append({"cls": "ideal", "table": "T_ship_gas", "p_f": r * 8000.0, "p_i": 8000.0, "sched": "scalar",
                    "tier": tier})  # a fluid attached to the ideal reservoir does not change its plateau
    synth = ["S_ideal", "S_zlin", "S_zdip", "S_zdip_desc"]
    shipped = ["T_ship_gas", "T_hay"] + (["T_lib"] if tier == "thorough" else [])
    for tab, r, sc, p_i in itertools.product(synth + shipped, ratios, ["scalar", "stepdown", "downup"], [8000.0, 6033.3]):
        if p_i != 8000.0 and (sc != "scalar" or r not in (0.5, 0.99) or tab.endswith("_desc")):
            continue  # an initial pressure between table rows, on a reduced sub-lattice
        lo, hi = tables.table_range(tab)
        if not lo <= r * p_i:
            continue
        if tab.endswith("_desc") and (r not in (0.5, 0.99) or sc == "stepdown"):
            continue  # the descending-order copy only needs to show that row order does not matter
        out.append({"cls": "single", "table": tab, "p_f": r * p_i, "p_i": p_i, "sched": sc, "tier": tier})
    # time grids that do not start at 0 (a history whose clock starts at first production): same physics
    for tab, t0 in itertools.product(["S_zdip", "T_ship_gas"], [1e-3, 5.0]):
        out.append({"cls": "single", "table": tab, "p_f": 4000.0, "p_i": 8000.0, "sched": "scalar", "tier": tier, "t0": t0})
    out.append({"cls": "ideal", "table": None, "p_f": 4000.0, "p_i": 8000.0, "sched": "scalar", "tier": tier, "t0": 5.0})
    for tab in ("S_zdip", "T_ship_gas"):  # one dict of arrays wrapped twice
        out.append({"cls": "single", "table": tab, "p_f": 4000.0, "p_i": 8000.0, "sched": "scalar", "tier": tier, "reuse_dict": True})
    if tier == "thorough":
        for tab, r in itertools.product(synth, ratios):
            if r * 3000.0 >= 10:
                out.append({"cls": "single", "table": tab, "p_f": r * 3000.0, "p_i": 3000.0, "sched": "scalar",
                            "tier": tier})
    return out


def evaluate(case):
    cls = case["cls"]
    viol = []
    G = []
    GS = []  # signed gap at t = T/4 and t = T per rung
    PL = []  # signed plateau error of the ideal reservoir per rung
    delta = 0.0
    outcome = []
    rungs = ladder(case["tier"])
    T = 6.0 if cls == "ideal" else T_END
    for nx, nt in rungs:
        t = sim.time_grid("quadratic", nt, T) + case.get("t0", 0.0)
        p_min = tables.table_range(case["table"])[0] if case["table"] else 0.0
        sched = sim.schedule(case["sched"], nt, case["p_f"], case["p_i"], p_min)
        res = sim.make_reservoir(cls, nx, case["p_f"], case["p_i"], case["table"])
        if case.get("reuse_dict"):
            # the caller keeps ONE dict of arrays and wraps it twice (e.g. for two initial pressures): the second wrapper
            # must be what a fresh table gives
            import warnings  # noqa: PLC0415

            from bluebonnet.flow import FlowProperties  # noqa: PLC0415

            shared = tables.table(case["table"])
            with warnings.catch_warnings():
                warnings.simplefilter("ignore")
                FlowProperties(shared, 0.9 * case["p_i"])
                res.fluid = FlowProperties(shared, case["p_i"])
        sim.simulate(res, t, sched)
        rf = np.asarray(res.recovery_factor(), dtype=float).copy()
        if not abs(rf[0]) <= 4 * np.finfo(float).eps:  # (a derived quantity: 1 - x * (1/x) may be one ulp)
            viol.append(V("start/flux", f"flux recovery starts at {rf[0]!r}, not 0 (nx={nx})", case=case,
                          observed=float(rf[0]), expected=0.0, tol=0))
        if cls == "ideal":
            plateau = 1 - case["p_f"] / case["p_i"]
            err = abs(rf[-1] / plateau - 1)
            PL.append(float(rf[-1] / plateau - 1))
            if err > GAP_C / nx:
                viol.append(V("ideal/plateau", f"ideal recovery at T={T} is {rf[-1]:.6g}; plateau 1-p_f/p_i = "
                              f"{plateau:.6g} (relative error {err:.3g} > {GAP_C}/nx)", case=case,
                              observed=float(rf[-1]), expected=plateau, tol=GAP_C / nx))
            if np.min(np.diff(rf)) < -1e-12:
                viol.append(V("monotone/flux", f"ideal recovery decreases by {-np.min(np.diff(rf)):.3g}", case=case))
            G.append(err)
            continue
        rfd = np.asarray(res.recovery_factor(density=True), dtype=float).copy()
        if not abs(rfd[0]) <= 4 * np.finfo(float).eps:
            viol.append(V("start/in-place", f"in-place recovery starts at {rfd[0]!r}, not 0 (nx={nx})",
                          case=case, observed=float(rfd[0]), expected=0.0, tol=0))
        tb = res.fluid.pvt_props
        pf_arr = np.full(nt, case["p_f"]) if sched is None else sched
        p_low = float(pf_arr.min())
        _o = np.argsort(np.asarray(tb["pressure"]))
        _pp, _rr = np.asarray(tb["pressure"])[_o], np.asarray(tb["density"])[_o]
        rho = lambda q: float(np.interp(q, _pp, _rr))  # noqa: E731
        ceiling = 1 - rho(p_low) / rho(case["p_i"])
        if rfd.max() > ceiling + 1e-9:
            viol.append(V("ceiling", f"in-place recovery reaches {rfd.max():.6g}, above the physical ceiling "
                          f"1 - rho(min p_f)/rho(p_i) = {ceiling:.6g} (nx={nx})", case=case,
                          observed=float(rfd.max()), expected=ceiling, tol=1e-9))
        # monotone while the schedule does not rise
        rise = np.flatnonzero(np.diff(pf_arr) > 0)
        upto = (rise[0] + 1) if rise.size else nt
        for name, arr in (("flux", rf), ("in-place", rfd)):
            d = np.diff(arr[:upto])
            if d.size and d.min() < -1e-12:
                viol.append(V(f"monotone/{name}", f"{name} recovery decreases by {-d.min():.3g} at level "
                              f"{int(np.argmin(d))} while frac-face pressure has not risen (nx={nx})", case=case,
                              observed=float(d.min()), tol=1e-12))
        if not delta:
            delta = inconsistency(tables.table(case["table"]), p_low, case["p_i"])
        G.append(float(np.max(np.abs(rf - rfd))) / ceiling)
        i4 = int(np.argmin(np.abs(t - (t[0] + 0.25 * (t[-1] - t[0])))))
        GS.append((float(rf[i4] - rfd[i4]) / ceiling, float(rf[-1] - rfd[-1]) / ceiling))
        # absolute anchor: in-place recovery IS 1 - (mass in place) / (initial mass) of the stored field, whatever the
        # node quadrature (sum, trapezoid: they differ by O(1/nx)); a common factor on both recovery modes cancels in
        # every comparison above
        u = np.asarray(res.pseudopressure, dtype=float)
        _om = np.argsort(np.asarray(tb["m-scaled"]))
        mass = np.interp(u, np.asarray(tb["m-scaled"])[_om], np.asarray(tb["density"])[_om])
        own = 1.0 - mass.sum(axis=1) / mass[0].sum()
        dev = float(np.max(np.abs(own - rfd))) / ceiling
        if dev > 1.5 / nx:
            viol.append(V("in-place/is-mass-in-place", f"in-place recovery differs from 1 - mass(t)/mass(0) of the stored field by "
                          f"{dev:.4g} of the ceiling at nx={nx} (allowed 1.5/nx for the node quadrature)", case=case,
                          observed=dev, tol=1.5 / nx))
    if cls == "single":
        if delta > 0.05:
            outcome.append("table-inconsistency>5%:gap-not-demanded")
        else:
            for k, (nx, _) in enumerate(rungs):
                if G[k] > GAP_C / nx + DELTA_W * delta:
                    viol.append(V("mass-balance/gap", f"flux and in-place recovery differ by {G[k]:.4g} of the "
                                  f"ceiling at nx={nx} (allowed {GAP_C}/nx + {DELTA_W}*delta, table inconsistency "
                                  f"delta={delta:.3g}); ladder {[round(g, 5) for g in G]}", case=case, observed=G,
                                  tol=GAP_C / nx + DELTA_W * delta))
                    break
            for k in range(len(G) - 1):
                if G[k + 1] > RATIO * G[k] + DELTA_W * delta + 2e-4:
                    viol.append(V("mass-balance/refinement", f"gap does not shrink under refinement: "
                                  f"{[round(g, 5) for g in G]} (delta={delta:.3g})", case=case, observed=G))
                    break
            # first-order Richardson estimate of the gap's limit under refinement: must vanish
            lim = 2 * G[-1] - G[-2]
            if lim > 0.6 * G[-1] + DELTA_W * delta + 2e-4:
                viol.append(V("mass-balance/limit", f"the gap extrapolates to {lim:.4g} of the ceiling under refinement "
                              f"(ladder {[round(g, 5) for g in G]}), i.e. it does not shrink to zero "
                              f"(measured <= 0.53 G_last on consistent tables)", case=case, observed=lim,
                              tol=0.6 * G[-1] + DELTA_W * delta + 2e-4))
            # the SIGNED gap at fixed times extrapolates to zero as well (a flux scale that is 1 % high shrinks the
            # unsigned maximum on every rung, because the discretisation gap is negative at late time)
            for which, name in ((0, "t = T/4"), (1, "t = T")):
                g = [x[which] for x in GS]
                lim_s = 2 * g[-1] - g[-2]
                if abs(lim_s) > 0.6 * abs(g[-1]) + DELTA_W * delta + 2e-4:
                    viol.append(V("mass-balance/signed-limit", f"the signed gap (flux - in-place)/ceiling at {name} is "
                                  f"{[round(x, 5) for x in g]} along the ladder and extrapolates to {lim_s:.4g}, not to zero",
                                  case=case, observed=lim_s, tol=0.6 * abs(g[-1]) + DELTA_W * delta + 2e-4))
                    break
            outcome.append("gap-ladder")
    if cls == "ideal" and not case.get("t0"):
        # ideal-gas recovery depends on the pressures only through p_f / p_i: the same ratio at other pressure levels
        nx0, nt0 = rungs[0]
        t0_ = sim.time_grid("quadratic", nt0, T)
        r_ = case["p_f"] / case["p_i"]
        base = None
        for p_i2 in (20.0, 500.0, case["p_i"], 30000.0):
            q = sim.make_reservoir("ideal", nx0, r_ * p_i2, p_i2, None)
            q.simulate(t0_)
            rfq = np.asarray(q.recovery_factor(), dtype=float)
            base = rfq if base is None else base
            if not (np.allclose(rfq, base, rtol=1e-12, atol=1e-15) and abs(float(q.fvf_scale()) - (1 - r_)) <= 1e-12):
                viol.append(V("ideal/depends-on-pressure-level", f"ideal recovery at p_f/p_i = {r_:.6g} differs between p_i = 20 psi and "
                              f"p_i = {p_i2} psi (final values {float(base[-1])!r} vs {float(rfq[-1])!r}; 1 - p_f/p_i = {1 - r_!r})",
                              case=case, observed=float(rfq[-1]), expected=float(base[-1])))
                break
    if cls == "ideal" and len(PL) >= 2:
        # the plateau error is first order and must extrapolate to zero (measured +0.745/nx, +0.646/nx, +0.585/nx)
        lim_p = 2 * PL[-1] - PL[-2]
        if abs(PL[-1]) > 1.2 / rungs[-1][0] or abs(lim_p) > 0.6 * abs(PL[-1]) + 2e-4 or abs(PL[-1]) > 0.75 * abs(PL[-2]) + 2e-4:
            viol.append(V("ideal/plateau-limit", f"ideal plateau error along the ladder {[round(x, 5) for x in PL]}: exceeds "
                          f"1.2/nx, does not shrink by 0.75, or extrapolates to {lim_p:.4g}", case=case, observed=PL))
    nsteps = sum(nt for _, nt in rungs)
    return {"violations": viol, "G": G, "delta": delta, "outcome": outcome or ["ideal-plateau"],
            "evals": len(rungs), "nontrivial": bool(G and G[0] > 1e-6), "states": nsteps}


def run(ctx):
    cs = cases(ctx.tier, ctx.seed)
    res = ctx.pmap(evaluate, cs, chunksize=1)
    gs = [r["G"][0] * ladder(ctx.tier)[0][0] for r in res if r.get("G") and r.get("delta", 1) < 1e-3
          and r["outcome"] != ["ideal-plateau"]]
    cov = {
        "evaluations": sum(r.get("evals", 0) for r in res),
        "distinct_nontrivial": sum(1 for r in res if r.get("nontrivial")),
        "rule": "one evaluation = one (configuration, rung) simulation with both recovery modes compared; "
                "non-trivial = the two modes differ by more than 1e-6 of the ceiling at the coarsest rung "
                "(identical values would mean the comparison is vacuous)",
        "samples": samples_of([{**c, "G": r.get("G"), "delta": r.get("delta")} for c, r in zip(cs, res)]),
        "configurations": len(cs), "time_levels_simulated": sum(r.get("states", 0) for r in res),
        "worst_G_times_nx_on_exact_tables": max(gs) if gs else None,
        "table_inconsistency": {c["table"]: r.get("delta") for c, r in zip(cs, res) if c["table"]},
    }
    return ctx.finish("exploration", cov, [
        "synthetic families are exactly consistent by construction; shipped tables up to their measured delta",
        "gap bound 2.5/nx + 1.5 delta and ratio 0.75 per rung decide the asymptotic 'shrinks under refinement'",
    ])


def replay(case):
    return evaluate(case)["violations"]
