"""C05 - forecast scaling law, bounded fitting, guess regularisation, malformed bounds, round trip."""

from __future__ import annotations

import functools
import itertools
import warnings

import numpy as np

from .. import sim
from ..common import V, samples_of, seed_offset
from ..refmodels import fourier

RT_TOL = 1e-6  # correct code recovers the generating parameters to ~1e-13 on noise-free data


@functools.lru_cache(maxsize=None)
def curve(name):
    if name == "analytic":
        grid = np.linspace(0, np.sqrt(40.0), 4001) ** 2
        vals = fourier.recovery(grid)
        return lambda t: np.interp(np.asarray(t, dtype=float), grid, vals, left=0.0, right=vals[-1])
    cls, tab, p_f, p_i = {"ideal": ("ideal", None, 500.0, 5000.0), "gas": ("single", "T_ship_gas", 1000.0, 8000.0)}[name]
    res = sim.make_reservoir(cls, 40, p_f, p_i, tab)
    res.simulate(sim.time_grid("quadratic", 2000, 8.0))
    res.recovery_factor()
    return res.recovery_factor_interpolator()


def window(tau, end, n):
    return np.linspace(0.0, np.sqrt(end * tau), n) ** 2


def eval_scaling(case):
    from bluebonnet.forecast import ForecasterOnePhase  # noqa: PLC0415

    rf = curve(case["curve"])
    M, tau, s = case["M"], case["tau"], case["scale"]
    t = window(tau, 3.0, 60)
    fc = ForecasterOnePhase(rf)
    got = np.asarray(fc.forecast_cum(t, M, tau), dtype=float)
    want = M * np.asarray(rf(t / tau), dtype=float)
    viol = []
    tol = 1e-12 * np.abs(want).max()
    if not np.all(np.abs(got - want) <= tol):
        k = int(np.argmax(np.abs(got - want)))
        viol.append(V("scaling-law", f"forecast_cum(t, M={M}, tau={tau})[{k}] = {got[k]!r}, M * rf(t/tau) = {want[k]!r}",
                      case=case, observed=float(got[k]), expected=float(want[k]), tol=tol))
    lin = np.asarray(fc.forecast_cum(t, s * M, tau), dtype=float)
    if not np.all(np.abs(lin - s * got) <= 4 * np.finfo(float).eps * np.abs(s * got)):
        viol.append(V("linear-in-M", f"forecast_cum(t, {s}*M, tau) != {s} * forecast_cum(t, M, tau)", case=case))
    joint = np.asarray(fc.forecast_cum(s * t, M, s * tau), dtype=float)
    # (s t)/(s tau) differs from t/tau by one rounding; the curve is Lipschitz (slope <= rf/t near 0)
    jt = 1e-12 * np.abs(want).max() + 8 * np.finfo(float).eps * np.abs(want)
    if not np.all(np.abs(joint - got) <= jt + 1e-9 * np.abs(want)):
        k = int(np.argmax(np.abs(joint - got)))
        viol.append(V("joint-rescale", f"rescaling time and tau together by {s} changes the forecast at index {k}: "
                      f"{joint[k]!r} vs {got[k]!r}", case=case, observed=float(joint[k]), expected=float(got[k])))
    fc.M_, fc.tau_ = 7.0 * M, 0.5 * tau  # fitted values that differ from the explicit arguments
    zero = np.asarray(fc.forecast_cum(t, 0.0, tau), dtype=float)
    if not np.all(zero == 0):
        viol.append(V("linear-in-M/zero", f"forecast_cum(t, M=0, tau) is not zero (max {np.abs(zero).max()!r}): an "
                      "explicit zero must not fall back to the fitted M_", case=case))
    expl = np.asarray(fc.forecast_cum(t, M, tau), dtype=float)
    if not np.array_equal(expl, got):
        viol.append(V("explicit-arguments-win", "explicit M, tau are overridden by fitted M_/tau_", case=case))
    # partially explicit arguments: the explicit one wins, the other one comes from the fit
    only_M = np.asarray(fc.forecast_cum(t, M), dtype=float)          # tau_ = 0.5 tau
    only_tau = np.asarray(fc.forecast_cum(t, tau=tau), dtype=float)  # M_ = 7 M
    w_M = M * np.asarray(rf(t / (0.5 * tau)), dtype=float)
    w_tau = 7.0 * M * np.asarray(rf(t / tau), dtype=float)
    if not (np.all(np.abs(only_M - w_M) <= 1e-12 * np.abs(w_M).max()) and np.all(np.abs(only_tau - w_tau) <= 1e-12 * np.abs(w_tau).max())):
        viol.append(V("partially-explicit-arguments", "forecast_cum(t, M) / forecast_cum(t, tau=tau) do not combine the "
                      "explicit argument with the fitted value of the other one", case=case))
    fc.M_, fc.tau_ = M, tau
    dflt = np.asarray(fc.forecast_cum(t), dtype=float)
    if not np.array_equal(dflt, got):
        viol.append(V("defaults-to-fitted", "forecast_cum(t) without arguments does not use M_/tau_", case=case))
    # history: the fitted values change (a second well is fitted) and the same horizon is forecast again
    fc.M_, fc.tau_ = 3.0 * M, 2.0 * tau
    again = np.asarray(fc.forecast_cum(t), dtype=float)
    want2 = 3.0 * M * np.asarray(rf(t / (2.0 * tau)), dtype=float)
    if not np.all(np.abs(again - want2) <= 1e-12 * np.abs(want2).max()):
        viol.append(V("defaults-follow-latest-fit", "after M_/tau_ changed, forecast_cum(t) on the same horizon still "
                      f"returns the earlier forecast (max diff {np.max(np.abs(again - want2)):.3g})", case=case))
    return {"violations": viol, "outcome": "scaling", "key": ("s", case["curve"], M, tau, s)}


def eval_roundtrip(case):
    from bluebonnet.forecast import Bounds, ForecasterOnePhase  # noqa: PLC0415

    rf = curve(case["curve"])
    M, tau = case["M"], case["tau"]
    t = window(tau, case["end"], case["n"])
    if case.get("window") == "late-uniform":  # evenly spaced samples that start well after first production
        t = np.linspace(0.05 * tau, case["end"] * tau, case["n"])
    y = M * np.asarray(rf(t / tau), dtype=float)
    if case.get("zero"):  # a well that never produced: every sample is zero
        y = np.zeros_like(y)
    if case.get("dtype") == "int":  # integer-typed time and production arrays (days, whole units)
        t = np.unique(np.round(t).astype(np.int64))
        y = np.round(M * np.asarray(rf(t / tau), dtype=float)).astype(np.int64)
    viol = []
    b = case["bounds"]
    kw = {}
    lo_hi = None
    if b != "default":
        f = {"finite-inside": ((0.2, 5.0), (0.2, 5.0)), "half-inside": ((0.2, np.inf), (0.2, np.inf)),
             "finite-truth-below": ((2.0, 10.0), (3.0, 9.0)), "finite-truth-above": ((0.01, 0.5), (0.02, 0.4)),
             "half-truth-below": ((3.0, np.inf), (8.0, np.inf)), "fractional": ((0.2137, 5.0331), (0.2137, 5.0331)),
             "fractional-outside": ((2.13007, 9.70013), (0.50003, 4.00007))}[b]
        lo_hi = ((f[0][0] * M, f[0][1] * M), (f[1][0] * tau, f[1][1] * tau))
        kw["bounds"] = Bounds(M=lo_hi[0], tau=lo_hi[1])
    fc = ForecasterOnePhase(rf, **kw)
    if case.get("rebound"):
        # the forecaster is built and used with OTHER bounds first; the configured ones are assigned to the public field
        # afterwards - the next fit must honour the bounds that are current when it is called
        first = {"default": {}, "wide": {"bounds": Bounds(M=(1e-3 * M, 1e3 * M), tau=(1e-3 * tau, 1e3 * tau))}}[case["rebound"]]
        fc = ForecasterOnePhase(rf, **first)
    with warnings.catch_warnings():
        warnings.simplefilter("ignore")
        try:
            if case.get("rebound"):
                fc.fit(t, y)
                fc.bounds = kw["bounds"]
            if case.get("history"):  # the same forecaster has fitted a very different well before
                t0 = window(case["history"], 3.0, 60)
                fc.fit(t0, 7.0 * M * np.asarray(rf(t0 / case["history"]), dtype=float))
            fc.fit(t, y)
        except Exception as e:  # noqa: BLE001
            return {"violations": [V("fit/raises", f"fit raised {type(e).__name__}: {e}", case=case)], "outcome": "raise"}
    Mf, tf = float(fc.M_), float(fc.tau_)
    if lo_hi is not None:
        if not (lo_hi[0][0] <= Mf <= lo_hi[0][1] and lo_hi[1][0] <= tf <= lo_hi[1][1]):
            viol.append(V("fit/inside-bounds", f"fitted M={Mf!r}, tau={tf!r} outside the configured bounds {lo_hi}",
                          case=case, observed=[Mf, tf], expected=lo_hi, tol=0))
    else:
        if not (Mf >= 0 and tf >= 1e-10):
            viol.append(V("fit/inside-bounds", f"fitted M={Mf!r}, tau={tf!r} outside the default bounds", case=case))
    if case.get("zero"):
        # no production at all: the least-squares optimum is M = 0, clipped into the bounds.  Only demanded where the
        # bounds give the problem a scale (with the default bounds any M at rounding level of the optimiser's unit
        # step is "zero": containment, checked above, is all the statement says then)
        want0 = lo_hi[0][0] if lo_hi is not None else 0.0
        if lo_hi is not None and not abs(Mf - want0) <= 1e-6 * want0:
            viol.append(V("fit/zero-production", f"all-zero production fits M={Mf!r}; the bounded optimum is {want0!r}", case=case,
                          observed=Mf, expected=want0))
        return {"violations": viol, "outcome": f"zero:{b}", "key": ("z", case["curve"], M, tau, b)}
    if b in ("default", "finite-inside", "half-inside") and case.get("dtype") != "int":
        if not (abs(Mf / M - 1) <= RT_TOL and abs(tf / tau - 1) <= RT_TOL):
            viol.append(V("round-trip", f"noise-free data from M={M}, tau={tau} over a window ending at {case['end']} tau "
                          f"({case['n']} samples) fits M={Mf:.6g} ({Mf / M:.4f} x), tau={tf:.6g} ({tf / tau:.4f} x)",
                          case=case, observed=[Mf, tf], expected=[M, tau], tol=RT_TOL))
    # supplied tau: returned unchanged, M the bounded least-squares optimum
    for tau_s, positional in ((tau, False), (1.7 * tau, False), (1.7 * tau, True)):
        fc2 = ForecasterOnePhase(rf, **kw)
        with warnings.catch_warnings():
            warnings.simplefilter("ignore")
            try:
                if positional:  # fit(time, cumulative, tau): the third positional argument IS tau
                    fc2.fit(t, y, tau_s)
                else:
                    fc2.fit(t, y, tau=tau_s)
            except Exception as e:  # noqa: BLE001
                viol.append(V("fit-fixed-tau/raises", f"fit(tau={tau_s}) raised {type(e).__name__}: {e}", case=case))
                continue
        if fc2.tau_ != tau_s:
            viol.append(V("fit-fixed-tau/tau-unchanged", f"supplied tau {tau_s!r} came back as {fc2.tau_!r}", case=case))
        f = np.asarray(rf(t / tau_s), dtype=float)
        opt = float(np.sum(y * f) / np.sum(f * f))
        lo, hi = lo_hi[0] if lo_hi else (0.0, np.inf)
        opt = min(max(opt, lo), hi)
        if not abs(float(fc2.M_) - opt) <= 1e-6 * abs(opt):
            viol.append(V("fit-fixed-tau/optimum", f"with tau={tau_s} supplied, M={float(fc2.M_)!r}; bounded least-squares "
                          f"optimum {opt!r}", case=case, observed=float(fc2.M_), expected=opt, tol=1e-6))
    return {"violations": viol[:3], "outcome": f"rt:{b}", "key": ("r", case["curve"], M, tau, case["end"], case["n"], b, case.get("history"), case.get("dtype"), case.get("window"),
                                                                case.get("rebound"))}


def eval_guess(case):
    from bluebonnet.forecast import Bounds  # noqa: PLC0415

    (mlo, mhi), (tlo, thi) = case["M"], case["tau"]
    b = Bounds(M=(mlo, mhi), tau=(tlo, thi))
    viol = []
    gM = {"below": mlo - abs(mlo) - 1, "inside": mlo + 1.0 if np.isinf(mhi) else 0.5 * (mlo + mhi),
          "above": (mhi + 10 if np.isfinite(mhi) else 1e300), "inf": np.inf}[case["gM"]]
    gT = {"below": tlo - abs(tlo) - 1, "inside": tlo + 1.0 if np.isinf(thi) else 0.5 * (tlo + thi),
          "above": (thi + 10 if np.isfinite(thi) else 1e300), "inf": np.inf}[case["gT"]]
    for guess in ([gM], [gM, gT]):
        out = b.regularize_initial_guess(list(guess))
        if len(out) != len(guess):
            viol.append(V("guess/length", f"guess {guess} became {out}", case=case))
            continue
        for v, (lo, hi), nm in zip(out, ((mlo, mhi), (tlo, thi)), ("M", "tau")):
            if np.isfinite(hi):
                if not lo <= v <= hi:
                    viol.append(V("guess/inside-finite-bounds", f"{nm} guess {guess} regularised to {out}: outside "
                                  f"[{lo}, {hi}]", case=case, observed=out))
            elif not (v >= lo and (np.isfinite(v) or not np.isfinite(guess[0 if nm == "M" else 1]))):
                viol.append(V("guess/above-lower-bound", f"{nm} guess {guess} regularised to {out}: below {lo}", case=case))
    return {"violations": viol, "outcome": "guess", "key": ("g", str(case))}


def eval_malformed(case):
    from bluebonnet.forecast import Bounds  # noqa: PLC0415

    try:
        Bounds(M=tuple(case["M"]), tau=tuple(case["tau"]))
    except ValueError:
        return {"violations": [], "outcome": "rejected"}
    except Exception as e:  # noqa: BLE001
        return {"violations": [V("malformed/wrong-exception", f"{case}: {type(e).__name__}", case=case)], "outcome": "x"}
    return {"violations": [V("malformed/accepted", f"Bounds(M={case['M']}, tau={case['tau']}) was accepted", case=case)],
            "outcome": "accepted"}


# ---------------------------------------------------------------------------------------------------------
# life cycle of ONE forecaster object (explicit-state search over call histories, as C10 does for reservoirs)

LC_OPS = ["fitA", "fitB", "fitA@tau", "fitB@tau", "fitNaN", "setBounds", "fc", "fc(M)", "fc(tau)"]
LC_T = np.array([0.0, 0.3, 2.0, 9.0, 40.0, 2500.0])


def _lc_data(rf):
    tA, tB = window(3.0, 3.0, 50), window(900.0, 2.0, 60)
    return {"A": (tA, 300.0 * np.asarray(rf(tA / 3.0), dtype=float)), "B": (tB, 2e-3 * np.asarray(rf(tB / 900.0), dtype=float))}


def _lc_bounds(kind):
    from bluebonnet.forecast import Bounds  # noqa: PLC0415

    return Bounds(M=(1.0, 250.0), tau=(0.5, 2000.0)) if kind == "finite" else None


def _lc_new(rf, kind):
    from bluebonnet.forecast import ForecasterOnePhase  # noqa: PLC0415

    b = _lc_bounds(kind)
    return ForecasterOnePhase(rf, b) if b is not None else ForecasterOnePhase(rf)


def _lc_apply(fc, op, data, st):
    """Apply one op; returns the observation.  `st` tracks which Bounds variant the harness assigned last."""
    try:
        if op == "setBounds":  # the public dataclass field is reassigned on the live object (toggle default <-> finite)
            st["bounds"] = "finite" if st["bounds"] == "default" else "default"
            from bluebonnet.forecast import ForecasterOnePhase  # noqa: PLC0415

            fc.bounds = _lc_bounds(st["bounds"]) or ForecasterOnePhase(fc.rf_curve).bounds
            return ("set", st["bounds"])
        if op.startswith("fit"):
            t, q = data[op[3]]
            if op == "fitNaN":  # a fit that must fail: non-finite production (curve_fit rejects it) - and leave no trace
                q = data["A"][1].copy()
                q[7] = np.nan
                t = data["A"][0]
            kw = {"tau": 5.0 if op[3] == "A" else 2000.0} if op.endswith("@tau") else {}
            fc.fit(t.copy(), q.copy(), **kw)
            return ("fit", float(fc.M_), float(fc.tau_))
        if op == "fc":
            return ("val", np.asarray(fc.forecast_cum(LC_T.copy()), dtype=float))
        if op == "fc(M)":
            return ("val", np.asarray(fc.forecast_cum(LC_T.copy(), M=7.0), dtype=float))
        if op == "fc(tau)":
            return ("val", np.asarray(fc.forecast_cum(LC_T.copy(), tau=11.0), dtype=float))
    except Exception as e:  # noqa: BLE001 - whether a call raises is part of the observation
        return ("raise", type(e).__name__)
    raise KeyError(op)


def eval_lifecycle(case):
    """Every history over LC_OPS up to the depth bound on one forecaster.  Oracle on every transition: the fitted pair
    after the latest successful fit equals (1e-13) what a FRESH forecaster, constructed with the bounds current at that
    fit, obtains from that fit alone; a failed fit changes nothing; every forecast equals M x rf(t / tau) with the explicit
    arguments where given and the latest fitted values otherwise; forecasts before the first fit raise."""
    from .. import history  # noqa: PLC0415

    rf = curve(case["curve"])
    data = _lc_data(rf)

    def build(hist):
        st = {"bounds": "default", "reads": set()}
        fc = _lc_new(rf, "default")
        obs = []
        for op in hist:
            obs.append(_lc_apply(fc, op, data, st))
            if op.startswith("fc") and obs[-1][0] == "val":
                st["reads"].discard((op, "before-latest-fit"))
                st["reads"].add((op, "since-latest-fit"))
            elif obs[-1][0] == "fit":  # what was forecast under the previous fitted pair is remembered as such
                st["reads"] = {(o, "before-latest-fit") for o, _ in st["reads"]}
        return (fc, st), obs

    def canon(pair):
        # the fitted pair and the assigned bounds, PLUS which kinds of forecast have been requested so far: a forecast
        # is a pure read for a correct forecaster, but merging "has forecast (under the previous / the current fitted pair)" with "has not" would hide exactly the
        # hidden state this search is after (a forecast memo that survives the next fit, wherever it is kept)
        fc, st = pair
        d = vars(fc)
        return (st["bounds"], repr(d.get("M_")), repr(d.get("tau_")), tuple(sorted(st["reads"])))

    ref_fit = {}

    def reference(op, bounds):
        if (op, bounds) not in ref_fit:
            f2 = _lc_new(rf, bounds)
            ref_fit[(op, bounds)] = _lc_apply(f2, op, data, {"bounds": bounds, "reads": set()})
        return ref_fit[(op, bounds)]

    def expected_state(hist):
        """(M, tau) the object must hold after hist, from fresh objects; None before the first successful fit."""
        b, cur = "default", None
        for op in hist:
            if op == "setBounds":
                b = "finite" if b == "default" else "default"
            elif op.startswith("fit"):
                r = reference(op, b)
                if r[0] == "fit":
                    cur = (r[1], r[2])
        return cur

    def close(a, b):
        return a == b or abs(a - b) <= 1e-13 * max(abs(a), abs(b))

    def check_transition(hist, op):
        full = hist + [op]
        (fc, st), obs = build(full)
        got = obs[-1]
        c = dict(case, history=full)
        want = expected_state(full)
        out = []
        d = vars(fc)
        have = (float(d["M_"]), float(d["tau_"])) if "M_" in d and "tau_" in d else None
        if (have is None) != (want is None) or (have and not (close(have[0], want[0]) and close(have[1], want[1]))):
            out.append(V("lifecycle/fitted-values", f"after {full} the forecaster holds (M_, tau_) = {have}; a fresh forecaster "
                         f"that runs only the latest successful fit (with the bounds current at that fit) obtains {want}", case=c))
            return out
        if op == "fitNaN" and got[0] != "raise":
            out.append(V("lifecycle/failed-fit-accepted", f"after {hist}, a fit on production containing NaN was accepted: {got}", case=c))
        if op.startswith("fc"):
            if want is None:
                if got[0] != "raise" and op != "fc(M)" and op != "fc(tau)":
                    out.append(V("lifecycle/forecast-before-fit", f"forecast_cum with default arguments before any fit returned {got}", case=c))
            else:
                M = 7.0 if op == "fc(M)" else want[0]
                tau = 11.0 if op == "fc(tau)" else want[1]
                ref = M * np.asarray(rf(LC_T / tau), dtype=float)
                if got[0] != "val" or not np.all(np.abs(got[1] - ref) <= 4 * np.finfo(float).eps * np.abs(ref) + 1e-300):
                    out.append(V("lifecycle/forecast", f"after {full}: forecast_cum = {got[1] if got[0] == 'val' else got}; "
                                 f"M x rf(t / tau) with M = {M!r}, tau = {tau!r} gives {ref}", case=c))
        return out

    def check_state(hist):
        return []

    stats, viol = history.bfs(build, LC_OPS, check_transition, check_state, case["depth"], canon=canon)
    viol.sort(key=lambda v: len(v["case"]["history"]))
    return {"violations": viol[:3], "outcome": f"lifecycle:{stats['states']}", "key": ("lc", case["curve"], case["depth"]),
            "lc": {k: stats[k] for k in ("states", "transitions", "depth_reached", "frontier_closed_before_bound")}}


def evaluate(case):
    return {"scaling": eval_scaling, "roundtrip": eval_roundtrip, "guess": eval_guess,
            "malformed": eval_malformed, "lifecycle": eval_lifecycle}[case["kind"]](case)


def cases(tier, seed):
    thorough = tier == "thorough"
    curves = ["analytic", "ideal", "gas"]
    Ms = [1e-9, 1e-6, 1e-3, 1e-2, 1.0, 300.0, 1e6, 1e12]  # what matters to the optimiser is M relative to tau
    taus = [1e-2, 3.0, 1e4]
    if seed:
        o = seed_offset(seed)
        Ms.append(float(f"{10 ** (-9 + 21 * o):.4g}"))
        taus.append(float(f"{10 ** (-2 + 6 * ((o * 3) % 1)):.4g}"))
    out = [{"kind": "scaling", "curve": c, "M": M, "tau": tau, "scale": s}
           for c, M, tau, s in itertools.product(curves, Ms, taus, [1 / 7, 3.0, 1e3])]
    ends = [0.6, 1.0, 3.0]
    ns = [50, 200]
    bnds = ["default", "finite-inside", "half-inside", "finite-truth-below", "finite-truth-above", "half-truth-below"]
    for c, M, tau, e, n, b in itertools.product(curves, Ms, taus, ends, ns, bnds):
        if not thorough and b != "default" and (n == 200 or e == 1.0):
            continue
        out.append({"kind": "roundtrip", "curve": c, "M": M, "tau": tau, "end": e, "n": n, "bounds": b})
    for c, tau, h in itertools.product(curves, [3.0, 900.0], [0.05, 2e4]):  # fit history on one forecaster
        out.append({"kind": "roundtrip", "curve": c, "M": 3e5, "tau": tau, "end": 3.0, "n": 50, "bounds": "default",
                    "history": h})
    for c, b in itertools.product(curves, ["default", "fractional", "finite-truth-below", "fractional-outside"]):  # integer-typed data
        out.append({"kind": "roundtrip", "curve": c, "M": 5000.0, "tau": 365.25, "end": 3.0, "n": 200, "bounds": b,
                    "dtype": "int"})
    for c, M, tau, e, b in itertools.product(curves, [1e-6, 300.0, 1e12], taus, ends, ["default", "finite-inside"]):
        out.append({"kind": "roundtrip", "curve": c, "M": M, "tau": tau, "end": e, "n": 50, "bounds": b, "window": "late-uniform"})
    for c, M, tau, b in itertools.product(curves, [1e-6, 300.0, 1e12], taus, ["default", "finite-inside", "finite-truth-below"]):
        # (half-infinite bounds with a positive lower limit on M have no optimum for zero data: tau runs to infinity)
        out.append({"kind": "roundtrip", "curve": c, "M": M, "tau": tau, "end": 3.0, "n": 50, "bounds": b, "zero": True})
    for c, M, tau, b, rb in itertools.product(curves, [1e-6, 300.0, 1e12], [3.0, 1e4],
                                              ["finite-inside", "finite-truth-below", "finite-truth-above", "half-truth-below"],
                                              ["default", "wide"]):
        out.append({"kind": "roundtrip", "curve": c, "M": M, "tau": tau, "end": 3.0, "n": 50, "bounds": b, "rebound": rb})
    for Mb, Tb in itertools.product([(0.0, np.inf), (2.0, 50.0), (5.0, np.inf), (-10.0, 10.0), (-40.0, -2.0), (0.0, 8.0)],
                                    [(1e-10, np.inf), (0.5, 4.0), (3.0, np.inf), (-1.0, 6.0)]):
        for gM, gT in itertools.product(["below", "inside", "above", "inf"], repeat=2):
            out.append({"kind": "guess", "M": list(Mb), "tau": list(Tb), "gM": gM, "gT": gT})
    out += [{"kind": "lifecycle", "curve": c, "depth": 7 if thorough else 4} for c in curves]
    good = [1.0, 2.0]
    for bad in ([], [1.0], [1.0, 2.0, 3.0], [2.0, 1.0], [1.0, 1.0], [np.inf, np.inf], [0.0, 0.0]):
        out.append({"kind": "malformed", "M": bad, "tau": good})
        out.append({"kind": "malformed", "M": good, "tau": bad})
    return out


def run(ctx):
    cs = cases(ctx.tier, ctx.seed)
    res = ctx.pmap(evaluate, cs)
    cov = {
        "evaluations": len(cs),
        "distinct_nontrivial": len({tuple(map(str, r["key"])) for r in res if r.get("key")}),
        "rule": "scaling: curve x M x tau x scale factor; round trip / containment / fixed tau: curve x M x tau x "
                "window end x sample count x Bounds variant (truth inside / below / above); guesses: 9 Bounds x 16 "
                "guess positions x one- and two-parameter forms; malformed bounds: 14; non-trivial = distinct "
                "(kind, parameters) case that was actually fitted or evaluated",
        "samples": samples_of(cs),
        "by_kind": {k: sum(1 for c in cs if c["kind"] == k) for k in ("scaling", "roundtrip", "guess", "malformed", "lifecycle")},
        "lifecycle": [dict(r["lc"], curve=c["curve"]) for c, r in zip(cs, res) if "lc" in r],
    }
    return ctx.finish("exploration", cov, [
        "round trip demanded for windows ending in [0.6 tau, 3 tau] with >= 50 samples, to 1e-3",
        "NaN bounds and (-inf, x) bounds are outside the stated quantifier",
    ])


def replay(case):
    return evaluate(case)["violations"]
