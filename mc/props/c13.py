"""C13 - hand-coded derivative functions equal the exact derivatives of their parents
(forward-mode AD through the parent's own code); all-pressure oil compressibility assembly."""

from __future__ import annotations

import itertools

import numpy as np

from ..common import V, samples_of, seed_offset
from ..refmodels.dual import derivative_ref

REL = 1e-12
PCS = [(-72.2, 653.0), (-102.2, 648.5)]
STDS = [(60, 14.7), (68.0, 14.696), (60.0, 15.025)]  # default and two other standard-condition bases
# (plus, in eval_oil: the two arguments omitted, and given by keyword in the other order)


def close(a, b, rel=REL):
    if b is None:  # no reference available here (finite-difference fallback next to a kink): nothing is demanded
        return True
    return abs(a - b) <= rel * max(abs(a), abs(b)) + 1e-300


NO_DEMAND = [0]  # points at which neither route produced a reference (must stay 0 on the pinned tree; reported)


def derivative(f, x, side=0):
    """(value, derivative, rel): exact dual-number derivative of the parent's own code (rel = REL) or, when the
    parent's code cannot carry a dual number, a Richardson finite difference (rel = 1e-7; one-sided when the caller
    says on which side of the bubble point x lies; None only if even that is not smooth)."""
    v, d, tol = derivative_ref(f, x, side)
    if d is None:
        NO_DEMAND[0] += 1
    return v, d, (REL if tol is None else tol)


def eval_water(case):
    from bluebonnet.fluids import water  # noqa: PLC0415

    T, p = case["T"], case["p"]
    _, d, rel = derivative(lambda q: water.b_water_McCain(T, q), p)
    got = float(water.b_water_McCain_dp(T, p))
    viol = []
    if not close(got, d, rel):
        viol.append(V("dBw/dp", f"b_water_McCain_dp({T}, {p}) = {got!r}; exact derivative of b_water_McCain = {d!r}",
                      case=case, observed=got, expected=d, tol=REL))
    arr = np.array([p, 2 * p + 1.0])
    keep = arr.copy()
    d2 = derivative(lambda q: water.b_water_McCain(T, q), float(keep[1]))[1]
    for attempt in (1, 2):  # the second call sees whatever the first one left in the caller's array
        got_a = np.asarray(water.b_water_McCain_dp(T + (attempt - 1) * 0.0, arr), dtype=float)
        if not np.array_equal(arr, keep):
            viol.append(V("dBw/dp-input-modified", f"b_water_McCain_dp overwrote the caller's pressure array "
                          f"{keep.tolist()} -> {arr.tolist()}", case=case))
            break
        if not (close(got_a[0], d, rel) and close(got_a[1], d2, rel)):
            viol.append(V("dBw/dp-array", f"array form of b_water_McCain_dp (call {attempt}) differs from the exact "
                          "derivative", case=case))
            break
    return {"violations": viol, "evals": 2, "outcome": "water", "key": ("w", T, p)}


def eval_oil(case):
    from bluebonnet.fluids import gas, oil  # noqa: PLC0415

    T, api, g, gor = case["T"], case["api"], case["g"], case["gor"]
    pb = float(oil.pressure_bubblepoint_Standing(T, api, g, gor))
    viol, evals = [], 0
    # dBo/dRs at the bubble point, against its parent, over a GOR lattice
    for r in case["gors"]:
        evals += 1
        _, d, rel = derivative(lambda x: oil.b_o_bubblepoint_Standing(T, api, g, x), r)
        got = float(oil.db_o_dgor_Standing(T, api, g, r))
        if not close(got, d, rel):
            viol.append(V("dBo/dRs", f"db_o_dgor_Standing(T={T}, api={api}, g={g}, R={r}) = {got!r}; exact derivative "
                          f"of b_o_bubblepoint_Standing = {d!r}", case=dict(case, R=r), observed=got, expected=d,
                          tol=REL))
            break
    if not pb > 50:
        return {"violations": viol, "evals": evals, "outcome": "p_b<=50"}
    for f in case["fractions"]:
        p = f * pb
        evals += 1
        c = dict(case, p=p, frac=f)
        val, d, rel = derivative(lambda q: oil.solution_gor_Standing(T, q, api, g, gor), p, side=1 if p >= pb else -1)
        got = oil.dgor_dpressure_Standing(T, p, api, g, gor)
        if p >= pb:
            if not (got == 0 and d in (0, None)):
                viol.append(V("dRs/dp-zero-above", f"at p = {f} p_b: dgor_dpressure = {got!r}, exact derivative of "
                              f"solution_gor_Standing = {d!r} (both must be 0)", case=c, observed=got, expected=0.0))
        elif not close(float(got), d, rel):
            viol.append(V("dRs/dp", f"dgor_dpressure_Standing at p = {f} p_b = {got!r}; exact derivative of "
                          f"solution_gor_Standing = {d!r}", case=c, observed=float(got), expected=d, tol=REL))
        # the same pressure in the other container forms the function accepts today (0-d array, one-element array):
        # whatever is returned must be the scalar call's value (an array branch that drifts from the scalar formula)
        for form, q in (("0-d array", np.array(p)), ("one-element array", np.array([p]))):
            try:
                got_f = np.asarray(oil.dgor_dpressure_Standing(T, q, api, g, gor), dtype=float).ravel()
            except Exception:  # noqa: BLE001 - array input is not part of the function's contract
                continue
            if got_f.size != 1 or not (got_f[0] == float(got) or close(float(got_f[0]), float(got), 1e-14)):
                viol.append(V("dRs/dp-container-form", f"dgor_dpressure_Standing at p = {f} p_b given as a {form} returns "
                              f"{got_f.tolist()}; the scalar call returns {float(got)!r}", case=c))
                break
        if f == 0.5:  # the same pressure given as an integer (Python int, np.int64): dtype must not leak in
            pi = int(p)
            _, want, rel_i = derivative(lambda q: oil.solution_gor_Standing(T, q, api, g, gor), float(pi))
            for q in (pi, np.int64(pi)):
                got_i = float(oil.dgor_dpressure_Standing(T, q, api, g, gor))
                if not close(got_i, want, rel_i):
                    viol.append(V("dRs/dp-integer-pressure", f"dgor_dpressure_Standing(p={q!r} as {type(q).__name__}) = "
                                  f"{got_i!r}; exact derivative of the parent {want!r}", case=dict(c, p=pi), observed=got_i,
                                  expected=want))
                    break
            wv = float(oil.db_o_dgor_Standing(int(T), int(api), g, int(gor)))
            _, wd, rel_w = derivative(lambda x: oil.b_o_bubblepoint_Standing(int(T), int(api), g, x), float(int(gor)))
            if not close(wv, wd, rel_w):
                viol.append(V("dBo/dRs-integer-arguments", f"db_o_dgor_Standing with integer arguments = {wv!r}; exact "
                              f"derivative {wd!r}", case=c))
        for (tpc, ppc), std in itertools.product(PCS, STDS + [None, "kw"]):
            evals += 1
            t_std, p_std = std if isinstance(std, tuple) else (std, None)
            if t_std is None:  # the function's own default standard conditions against b_factor_DAK's own defaults
                co = float(oil.oil_compressibility_Standing(T, p, api, g, gor, tpc, ppc))
            elif t_std == "kw":
                co = float(oil.oil_compressibility_Standing(T, p, api, g, gor, tpc, ppc, pressure_standard=15.025,
                                                            temperature_standard=68.0))
                t_std, p_std = 68.0, 15.025
            else:
                co = float(oil.oil_compressibility_Standing(T, p, api, g, gor, tpc, ppc, t_std, p_std))
            if p >= pb:
                want = float(oil.oil_compressibility_undersat_Spivey(T, p, api, g, gor))
                if not close(co, want, 1e-13):
                    viol.append(V("c_o/undersaturated", f"oil_compressibility_Standing at p = {f} p_b = {co!r}; "
                                  f"undersaturated correlation gives {want!r}", case=c, observed=co, expected=want))
            else:
                bg = float(gas.b_factor_DAK(T, p, tpc, ppc) if t_std is None else gas.b_factor_DAK(T, p, tpc, ppc, t_std, p_std))
                rs = float(oil.solution_gor_Standing(T, p, api, g, gor))
                dbo = float(oil.db_o_dgor_Standing(T, api, g, rs))
                drs = float(oil.dgor_dpressure_Standing(T, p, api, g, gor))
                num = (bg - dbo) * drs
                cands = [num / float(oil.b_o_bubblepoint_Standing(T, api, g, gor)),
                         num / float(oil.b_o_Standing(T, p, api, g, gor))]
                if not any(close(co, w, 1e-12) for w in cands):
                    viol.append(V("c_o/saturated-assembly", f"oil_compressibility_Standing at p = {f} p_b = {co!r}; "
                                  f"(B_g - dB_o/dR_s) dR_s/dp / B from the library's own functions = {cands}",
                                  case=dict(c, pc=[tpc, ppc], std=[t_std, p_std]), observed=co, expected=cands, tol=1e-12))
        if len(viol) > 4:
            break
    return {"violations": viol[:4], "evals": evals, "outcome": "oil", "key": ("o", T, api, g, gor), "no_demand": NO_DEMAND[0]}


def eval_history(case):
    """The same fluid at several temperatures, interleaved, in one process: every derivative must still be the
    exact derivative of its parent for its own arguments (nothing keyed without temperature may be reused)."""
    from bluebonnet.fluids import oil, water  # noqa: PLC0415

    api, g, gor = case["fluid"]
    viol, n = [], 0
    for T in case["temps"]:
        pb = float(oil.pressure_bubblepoint_Standing(T, api, g, gor))
        for p in case["pressures"]:
            n += 1
            _, want, rel_h = derivative(lambda q: oil.solution_gor_Standing(T, q, api, g, gor), p)
            got = float(oil.dgor_dpressure_Standing(T, p, api, g, gor))
            if not close(got, want, rel_h):
                viol.append(V("dRs/dp-after-history", f"after the same fluid was evaluated at other temperatures, "
                              f"dgor_dpressure_Standing(T={T}, p={p}) = {got!r}; exact derivative {want!r} (p_b = {pb:.6g})",
                              case=case, observed=got, expected=want))
                break
            _, w2, rel_w2 = derivative(lambda q: water.b_water_McCain(T, q), p)
            if not close(float(water.b_water_McCain_dp(T, p)), w2, rel_w2):
                viol.append(V("dBw/dp-after-history", f"b_water_McCain_dp(T={T}, p={p}) differs from the exact derivative "
                              "after other temperatures were evaluated", case=case))
                break
    # the same (T, p) for fluids that differ in exactly one of API, gas gravity, GOR: nothing keyed on a subset of the
    # arguments may be reused
    T0, p0 = case["temps"][0], case["pressures"][1]
    for a2, g2, r2 in ((api, g, gor), (api + 7.0, g, gor), (api, g + 0.1, gor), (api, g, gor * 1.5), (api, g, gor)):
        n += 1
        pb2 = float(oil.pressure_bubblepoint_Standing(T0, a2, g2, r2))
        _, want, rel_h = derivative(lambda q: oil.solution_gor_Standing(T0, q, a2, g2, r2), p0, side=1 if p0 >= pb2 else -1)
        got = float(oil.dgor_dpressure_Standing(T0, p0, a2, g2, r2))
        if not close(got, want, rel_h):
            viol.append(V("dRs/dp-after-history", f"after neighbouring fluids were evaluated at the same (T, p), "
                          f"dgor_dpressure_Standing(T={T0}, p={p0}, api={a2}, g={g2}, gor={r2}) = {got!r}; exact derivative {want!r}",
                          case=case, observed=got, expected=want))
            break
        w3 = derivative(lambda x: oil.b_o_bubblepoint_Standing(T0, a2, g2, x), r2)[1]
        if not close(float(oil.db_o_dgor_Standing(T0, a2, g2, r2)), w3, rel_h):
            viol.append(V("dBo/dRs-after-history", "db_o_dgor_Standing differs from the exact derivative after neighbouring "
                          "fluids were evaluated", case=case))
            break
    return {"violations": viol[:2], "evals": n, "outcome": "history", "no_demand": NO_DEMAND[0]}


def evaluate(case):
    if case["kind"] == "history":
        return eval_history(case)
    return (eval_water if case["kind"] == "water" else eval_oil)(case)


def cases(tier, seed):
    off = seed_offset(seed)
    Tw = [60.0, 100.0, 200.0, 300.0, 400.0]
    pw = [14.7, 500.0, 2000.0, 5000.0, 10000.0]
    # the last entry of each axis is deliberately not a round number (1.25 T etc. must not be exactly representable
    # in a narrower type); the seed moves them as well
    To, apis, gs, gors = [80.0, 200.0, 350.0, 201.37], [12.0, 35.0, 55.0, 33.3], [0.56, 0.8, 1.3, 0.813], [20.0, 650.0, 2500.0]
    fr = [0.1, 0.5, 0.9, 1 - 1e-6, 1 - 1e-10, float(np.nextafter(1.0, 0)), 1.0, 1 + 1e-6, 1.5]
    if tier == "thorough":
        Tw += [80.0, 150.0, 250.0, 350.0]
        pw += [100.0, 1000.0, 3500.0, 7500.0, 15000.0]
        To += [140.0, 275.0]
        apis += [20.0, 45.0]
        gs += [0.7, 1.0]
        gors += [100.0, 1500.0]
        fr += [0.02, 0.25, 0.75, 0.99, float(np.nextafter(1.0, 0)), float(np.nextafter(1.0, 2)), 1.01, 2.5]
    if seed:
        Tw.append(round(60 + 340 * off, 2))
        pw.append(round(14.7 + 9000 * ((off * 3) % 1), 2))
        fr.append(round(0.05 + 0.9 * off, 5))
        gors.append(round(20 + 2400 * ((off * 7) % 1), 1))
        To[-1] = round(80 + 270 * ((off * 11) % 1), 3)
        apis[-1] = round(12 + 43 * ((off * 13) % 1), 3)
        gs[-1] = round(0.56 + 0.74 * ((off * 17) % 1), 4)
    out = [{"kind": "water", "T": T, "p": p} for T, p in itertools.product(Tw, pw)]
    out += [{"kind": "oil", "T": T, "api": a, "g": g, "gor": r, "fractions": sorted(fr), "gors": [1.0, 20.0, 650.0, 2500.0]}
            for T, a, g, r in itertools.product(To, apis, gs, gors)]
    # a cold, nearly dead oil (surface / separator conditions): the bubble-point FVF correlation is at its low end here,
    # where a "physical floor" or clamp in the parent alone would go unnoticed everywhere else
    out += [{"kind": "oil", "T": T, "api": a, "g": 0.8, "gor": 20.0, "fractions": [0.5, 1.0, 1.5], "gors": [0.5, 1.0, 3.0, 6.0, 12.0]}
            for T, a in ((60.0, 35.0), (40.0, 20.0), (60.0, 55.0))]
    for fl in ([35.0, 0.8, 650.0], [20.0, 0.65, 150.0]):
        out.append({"kind": "history", "fluid": fl, "temps": [120.0, 300.0, 120.0, 210.0, 300.0],
                    "pressures": [400.0, 1200.0, 2000.0, 2600.0, 3300.0, 5000.0]})
    return out


def run(ctx):
    cs = cases(ctx.tier, ctx.seed)
    res = ctx.pmap(evaluate, cs)
    cov = {
        "evaluations": sum(r.get("evals", 0) for r in res),
        "distinct_nontrivial": len({tuple(r["key"]) for r in res if r.get("key")}),
        "rule": "complete water (T x p) and oil (T x API x gravity x GOR x p/p_b x pseudocritical point) lattices; "
                "each derivative function is compared with the dual part obtained by running its parent on a "
                "dual number; non-trivial = distinct fluid / state with a positive bubble point",
        "samples": samples_of(cs),
        "points_without_a_derivative_reference": max((r.get("no_demand", 0) for r in res), default=0),
    }
    return ctx.finish("exploration", cov, [
        "forward-mode dual numbers reproduce the parent's arithmetic exactly (same operation order)",
        "the statement does not fix the FVF in the denominator of the saturated compressibility: bubble-point "
        "FVF (as coded) and B_o(p) are both admitted",
    ])


def replay(case):
    case = {k: v for k, v in case.items() if k not in ("p", "frac", "R", "pc", "std")}
    return evaluate(case)["violations"]
