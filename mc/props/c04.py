"""C04 - every stored level is the backward-Euler update of the previous one (shape S) and
no loosely converged / failed linear solve is silently accepted (shape E)."""

from __future__ import annotations

import itertools

import numpy as np

from .. import envfault, sim, tables
from ..common import V, samples_of, seed_offset

RES_TOL = 1e-12


def step_residuals(res, cls, u, t, m_i, t_in=None):
    """Residual of the implicit update on interior rows and the no-flow outer row, from public
    state only.  Returns (kappa, worst list of (ratio, i, j, resid, tol))."""
    n, nx = u.shape
    # precision of the time stamps AS GIVEN BY THE CALLER (a library that stores them as float64 must not lose the slack)
    td = np.asarray(t_in if t_in is not None else t).dtype
    eps_t = float(np.finfo(td).eps) if td.kind == "f" and td.itemsize < 8 else 0.0
    D, G, TOLS = [], [], []
    for i in range(n - 1):
        dt = t[i + 1] - t[i]
        b = u[i] if cls == "ideal" else np.minimum(u[i], m_i)
        # scaled diffusivity at the previous profile from the fluid's PUBLIC lookup, not from the reservoir's own helper
        # (an error inside alpha_scaled would cancel): alpha(m) / alpha(m_i); the ideal reservoir has constant 1
        a = np.ones_like(b) if cls == "ideal" else \
            np.asarray(res.fluid.alpha(b), dtype=float) / float(res.fluid.alpha(res.fluid.m_i))
        u1 = u[i + 1]
        lap = np.empty(nx)
        lap[1:-1] = u1[:-2] - 2 * u1[1:-1] + u1[2:]
        lap[-1] = u1[-2] - u1[-1]
        lap[0] = 0.0
        g = dt * a * lap
        d = u1 - b
        g[0] = d[0] = 0.0  # frac-face row is C01/C02's business
        D.append(d)
        G.append(g)
        TOLS.append((float(np.max(np.abs(b))), float(dt * a.max()), float(np.max(np.abs(u1))),
                     float(np.max(np.abs(d)))))
    D, G = np.array(D), np.array(G)
    gg = float(np.sum(G * G))
    if gg == 0.0:
        # every new level has a vanishing second difference (flat profiles): the update then says the level did not
        # move at all - anything else is a violation in its own right
        worst = []
        for i in range(n - 1):
            bmax, dta_, umax, dmax = TOLS[i]
            # same rounding budget as the general case with the nominal constant nx^2: at mesh ratios ~1e13 a flat
            # new level IS the correctly rounded solution of a step that starts from a non-flat one
            tol0 = RES_TOL * max(bmax, (1 + 4 * float(nx) ** 2 * dta_) * umax)
            if dmax > tol0:
                worst.append((dmax / tol0, i, int(np.argmax(np.abs(D[i]))), dmax, tol0))
        worst.sort(reverse=True)
        return (None, worst, (worst[0][0] if worst else 0.0), 0.0) if worst else (None, [], 0.0, 0.0)
    kappa = float(np.sum(D * G) / gg)
    # resolution of the estimate: D carries rounding of size eps*|u| and G = dt a lap(u) carries 4 eps |u| dt a
    # (after one step of 1e7 the second difference itself is a few ulp of u); to first order
    # |dkappa| <= (|dD| + 3 |kappa| |dG|) / |G|.  The admissible range is widened by that much, and the range
    # test is dropped when the estimate is not even resolved to a factor of two
    eps = float(np.finfo(float).eps)
    nD = eps * float(np.max(np.abs(u))) * np.sqrt(D.size)
    nG = np.sqrt(sum((4 * eps * umax * dta) ** 2 * nx for (_b, dta, umax, _d) in TOLS))
    kappa_unc = float((nD + 3 * abs(kappa) * nG) / np.sqrt(gg)) / max(abs(kappa), 1e-300)
    k_used, k_slack = kappa, 0.0
    if kappa_unc > 0.5:
        # the fitted constant is noise (e.g. one step of 1e7 at p_f/p_i -> 1: the second difference is a few ulp): use
        # the nominal nx^2 and let the tolerance cover both node conventions ((nx-1)^2 .. (nx+1)^2) instead
        k_used, k_slack = float(nx) ** 2, 3.0 / nx
    R = np.abs(D - k_used * G)
    worst = []
    rmax = 0.0
    for i in range(n - 1):
        bmax, dta, umax, dmax = TOLS[i]
        # time stamps of lower precision than double leave the increment itself uncertain by ~eps(time dtype)
        tol = RES_TOL * max(bmax, (1 + 4 * abs(k_used) * dta) * umax) + 4 * eps_t * dmax \
            + k_slack * abs(k_used) * float(np.max(np.abs(G[i])))
        j = int(np.argmax(R[i]))
        ratio = R[i, j] / tol if tol > 0 else (np.inf if R[i, j] > 0 else 0.0)
        rmax = max(rmax, ratio)
        if ratio > 1:
            worst.append((float(ratio), i, j, float(R[i, j]), float(tol)))
    worst.sort(reverse=True)
    return kappa, worst, rmax, kappa_unc


def check_run(res, cls, t, m_i, nx, case):
    u = np.asarray(res.pseudopressure, dtype=float)
    t_in = np.asarray(t)
    t = np.asarray(res.time)
    viol = []
    if not np.all(np.isfinite(u)):
        return [V("be-residual/finite", "stored field is not finite", case=case)], None, 0.0
    kappa, worst, rmax, kunc = step_residuals(res, cls, u, t, m_i, t_in)
    if kappa is None:
        if worst:
            ratio, i, j, r, tol = worst[0]
            viol.append(V("be-residual/flat-level-moved", f"step {i}->{i + 1}: every stored level is flat (zero second "
                          f"difference), so the implicit update leaves the level unchanged, but node {j} moved by {r:.3g} "
                          f"({ratio:.3g}x rounding)", case=case, observed=r, tol=tol))
        return viol, None, rmax
    lo, hi = (nx - 1) ** 2 * (1 - 1e-6), (nx + 1) ** 2 * (1 + 1e-6)
    if kunc <= 0.5 and not lo * (1 - kunc) <= kappa <= hi * (1 + kunc):
        viol.append(V("be-residual/mesh-constant", f"least-squares mesh constant {kappa:.6g} is outside "
                      f"[(nx-1)^2, (nx+1)^2] = [{(nx - 1) ** 2}, {(nx + 1) ** 2}]: the steps are not a "
                      "backward-Euler update with one mesh constant", case=case, observed=kappa))
    if worst:
        ratio, i, j, r, tol = worst[0]
        viol.append(V("be-residual/step", f"step {i}->{i + 1}, node {j}: residual {r:.3g} of the implicit "
                      f"update is {ratio:.3g}x the rounding-level tolerance {tol:.3g} "
                      f"({len(worst)} of {len(t) - 1} steps fail; mesh constant {kappa:.6g})",
                      case=case, observed=r, tol=tol))
    return viol, kappa, rmax


# ------------------------------------------------------------------------------------------
GRIDS = [("quadratic", 30, 3.0), ("geometric", 30, 0), ("irregular", 30, 3.0), ("jitter", 25, 2.0),
         ("tiny", 20, 0), ("integer", 12, 0), ("float32", 20, 2.0),
         # one step of 1e7 from the initial state / steps of 1e3..1e6: dt a / dx^2 up to 1e13 on the fine grids
         ("onestep", 2, 0), ("huge", 6, 0)]


def cases_S(tier, seed):
    thorough = tier == "thorough"
    nxs = [3, 4, 5, 8, 16, 50, 150, 201, 400, 1000] if thorough else [3, 4, 8, 50, 150, 401]
    tabs = ["T_ship_gas", "A_kink", "A_fall", "S_zdip", "S_zdip_desc", "S_zdip_f32", "Simple_liquid"] + (["T_hay", "T_lib", "T_ship_oil", "A_jump", "A_kink1e3", "A_fall"] if thorough else ["A_jump"])
    pairs = [(100.0, 8000.0), (7000.0, 8000.0), (7990.0, 8000.0), (4003.3, 7703.7)]  # the last: both pressures between rows
    if seed:
        off = seed_offset(seed)
        pairs = pairs + [(100.0 + 6000 * off, 8000.0 - 500 * off)]
    out = []
    for cls_, tab_ in (("ideal", None), ("single", "T_ship_gas")):  # smoothly graded fine grid: steps differ by < 0.1 %
        out.append({"part": "S", "cls": cls_, "table": tab_, "p_f": 1000.0, "p_i": 8000.0, "nx": 8, "grid": "quadratic",
                    "n": 1500, "T": 3.0, "sched": "scalar", "seed": seed})
    for cls_, tab_, sc_ in (("ideal", None, "scalar"), ("single", "T_ship_gas", "scalar"), ("single", "T_ship_gas", "downup"),
                            ("single", "A_fall", "stepdown")):  # long hold: the profile stops moving long before the run ends
        out.append({"part": "S", "cls": cls_, "table": tab_, "p_f": 4000.0, "p_i": 8000.0, "nx": 8, "grid": "uniform",
                    "n": 400, "T": 60.0, "sched": sc_, "seed": seed})
    for nx, (g, n, T) in itertools.product(nxs, GRIDS):
        out.append({"part": "S", "cls": "ideal", "table": None, "p_f": 1000.0, "p_i": 8000.0, "nx": nx,
                    "grid": g, "n": n, "T": T, "sched": "scalar", "seed": seed})
    for tab, (p_f, p_i), nx, (g, n, T), sc in itertools.product(tabs, pairs, nxs, GRIDS,
                                                                  ["scalar", "stepdown", "downup"]):
        lo, hi = tables.table_range(tab)
        if not lo <= p_f < p_i <= hi:
            continue
        out.append({"part": "S", "cls": "single", "table": tab, "p_f": p_f, "p_i": p_i, "nx": nx,
                    "grid": g, "n": n, "T": T, "sched": sc, "seed": seed})
    for nx, (g, n, T), (p_f, p_i) in itertools.product(nxs, GRIDS, pairs[:2]):  # the two-phase class: its own simulate()
        out.append({"part": "S", "cls": "two", "table": "T_ship_gas", "p_f": p_f, "p_i": p_i, "nx": nx,
                    "grid": g, "n": n, "T": T, "sched": "scalar", "seed": seed})
    for (cls_, tab_), nx, (g, n, T), t0, sc in itertools.product((("ideal", None), ("single", "T_ship_gas"), ("single", "A_kink")),
                                                                [8, 50], [("quadratic", 30, 3.0), ("irregular", 30, 3.0), ("integer", 12, 0)],
                                                                [1e3, 1e6, 1.7e9], ["scalar", "downup"]):
        if cls_ == "ideal" and sc != "scalar":
            continue
        out.append({"part": "S", "cls": cls_, "table": tab_, "p_f": 1000.0, "p_i": 8000.0, "nx": nx, "grid": g, "n": n, "T": T,
                    "sched": sc, "seed": seed, "t0": t0})
    # the public field `nx` reassigned on a live object before the run (a refinement ladder walked on one object): the
    # stored field has the new node count, so the update must use the new mesh constant
    for cls_, tab_, (nx0, nx1), (g, n, T) in itertools.product(("ideal", "single"), ("T_ship_gas",), ((20, 40), (50, 8), (8, 9)),
                                                                (("quadratic", 20, 3.0), ("irregular", 20, 3.0))):
        out.append({"part": "S", "cls": cls_, "table": tab_ if cls_ != "ideal" else None, "p_f": 1000.0, "p_i": 8000.0, "nx": nx1,
                    "nx_built": nx0, "grid": g, "n": n, "T": T, "sched": "scalar", "seed": seed})
    out.sort(key=lambda c: c["nx"] * c["n"])
    return out


def _setup(case):
    t = sim.time_grid(case["grid"], case["n"], case["T"], case["seed"])
    if case.get("t0"):
        t = t + case["t0"]  # a clock that does not start at zero: only the increments enter the update
    p_min = tables.table_range(case["table"])[0] if case["table"] else 0.0
    sched = sim.schedule(case["sched"], len(t), case["p_f"], case["p_i"], p_min)
    res = sim.make_reservoir(case["cls"], case.get("nx_built", case["nx"]), case["p_f"], case["p_i"], case["table"])
    if "nx_built" in case:
        res.nx = case["nx"]
    m_i = 1.0 if case["cls"] == "ideal" else float(res.fluid.m_i)
    return res, t, sched, m_i


def evaluate_S(case):
    res, t, sched, m_i = _setup(case)
    sim.simulate(res, t, sched)
    viol, kappa, rmax = check_run(res, case["cls"], t, m_i, case["nx"], case)
    return {"violations": viol, "states": len(t), "transitions": len(t) - 1,
            "outcome": "resid<tol*%g" % (10.0 ** np.ceil(np.log10(max(rmax, 1e-12)))), "rmax": rmax}


# ---- E: deviation-bounded solver answers ---------------------------------------------------
def cases_E(tier, seed):
    out = []
    for cls, tab, nx in itertools.product(["ideal", "single", "two"], ["T_ship_gas", "A_kink"], [5, 20, 250, 600]):
        if cls in ("ideal", "two") and tab != "T_ship_gas":
            continue
        out.append({"part": "E", "cls": cls, "table": tab if cls != "ideal" else None, "p_f": 7000.0,
                    "p_i": 8000.0, "nx": nx, "grid": "geometric", "n": 7, "T": 0, "sched": "scalar",
                    "seed": seed, "bound": 2 if tier == "thorough" else 1})
    return out


def evaluate_E(case, only_choices=None):
    def body():
        res, t, sched, m_i = _setup(case)
        sim.simulate(res, t, sched)
        return res, t, m_i

    viol, execs, points, direct = [], 0, 0, 0
    outcomes = {}
    it = ([(only_choices, envfault.run_once(body, only_choices))] if only_choices is not None
          else envfault.explore(body, case["bound"]))
    base_warned = None
    for choices, r in it:
        execs += 1
        if base_warned is None:  # the first execution is the baseline (all answers exact): its warnings are not about
            base_warned = set(r["warned"]) if not any(choices or ()) else set()  # a failed solve
        r = dict(r, warned=[w_ for w_ in r["warned"] if w_ not in base_warned])
        points = max(points, len(r["points"]))
        direct = max(direct, r["direct_calls"])
        if r["raised"]:
            o = "raised"
        elif r["warned"]:
            o = "warned"
        else:
            res, t, m_i = r["result"]
            v, _, _ = check_run(res, case["cls"], t, m_i, case["nx"], case)
            if v:
                o = "silently-accepted"
                c = dict(case, choices=choices)
                what = {0: "exact", 1: "contract-limit error (smooth)", 2: "contract-limit error (alternating)",
                        3: "not converged (info>0)", 4: "breakdown (info<0)"}
                dev = [(i, what[c_]) for i, c_ in enumerate(choices) if c_]
                viol.append(V("solver-answer/silently-accepted",
                              f"solver answers {dev or 'all exact'} (requested rtol={r['points'][0]['rtol'] if r['points'] else None}) "
                              f"were stored without error or warning: {v[-1]['msg']}", case=c,
                              observed=v[-1]["observed"], tol=v[-1]["tol"]))
            else:
                o = "result-still-exact"
        outcomes[o] = outcomes.get(o, 0) + 1
    # re-run the first counterexample twice: identical observations or it is not trusted
    if viol and only_choices is None:
        c = viol[0]["case"]["choices"]
        a = envfault.run_once(body, c)["result"][0].pseudopressure
        b = envfault.run_once(body, c)["result"][0].pseudopressure
        if not np.array_equal(a, b):
            raise envfault.ReplayError("replay of a recorded choice vector is not deterministic")
    return {"violations": viol[:2], "states": execs * case["n"], "transitions": execs * (case["n"] - 1),
            "outcome": [f"E:{k}" for k in outcomes], "executions": execs, "choice_points": points,
            "direct_calls": direct, "E_outcomes": outcomes}


def evaluate(case):
    if case["part"] == "E":
        return evaluate_E(case)
    return evaluate_S(case)


def run(ctx):
    cs_S = cases_S(ctx.tier, ctx.seed)
    cs_E = cases_E(ctx.tier, ctx.seed)
    res = ctx.pmap(evaluate, cs_E + cs_S)
    rE, rS = res[:len(cs_E)], res[len(cs_E):]
    e_out = {}
    for r in rE:
        for k, v in r.get("E_outcomes", {}).items():
            e_out[k] = e_out.get(k, 0) + v
    cov = {
        "states": sum(r.get("states", 0) for r in res),
        "transitions": sum(r.get("transitions", 0) for r in res),
        "traces_validated_against_impl": len(cs_S) + sum(r.get("executions", 0) for r in rE),
        "samples": samples_of(cs_S) + samples_of(cs_E, 1),
        "S_runs": len(cs_S),
        "S_worst_residual_over_tolerance": max([r.get("rmax", 0.0) for r in rS] + [0.0]),
        "E_configs": len(cs_E), "E_deviation_bound_completed": cs_E[0]["bound"],
        "E_executions": sum(r.get("executions", 0) for r in rE),
        "E_iterative_solver_choice_points_per_run": max([r.get("choice_points", 0) for r in rE] + [0]),
        "E_direct_solver_calls_per_run": max([r.get("direct_calls", 0) for r in rE] + [0]),
        # neither an intercepted iterative entry point nor a counted direct one was called: the linear solve is code the
        # harness does not see (a hand-written elimination, say) and E explored the baseline only - S alone decides then
        "E_solver_unobserved": any(r.get("choice_points", 0) == 0 and r.get("direct_calls", 0) == 0 for r in rE),
        "E_outcomes": e_out,
        "explanation": "S: residual of the documented implicit update on every step of every run. "
                       "E: every iterative scipy.sparse.linalg entry point is intercepted; with a direct "
                       "solver there are no choice points and the exploration is the baseline run only",
    }
    return ctx.finish("model_checking", cov, [
        "residual tolerance 1e-12 * max(|rhs|, (1+4 kappa dt a)|u|): backward-error level of a direct solve",
        "mesh constant admitted in [(nx-1)^2,(nx+1)^2], estimated once per run by least squares",
        "solver answers enumerated: exact, two contract-limit errors, not-converged, breakdown",
    ])


def replay(case):
    if case.get("part") == "E":
        ch = case.get("choices")
        c = {k: v for k, v in case.items() if k != "choices"}
        return evaluate_E(c, only_choices=ch)["violations"]
    return evaluate_S(case)["violations"]
