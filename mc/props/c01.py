"""C01 - maximum principle, spatial/temporal monotonicity and relaxation to the frac-face
value (shape S: every state and transition of every run of a product lattice)."""

from __future__ import annotations

import itertools

import numpy as np

from .. import sim, tables
from ..common import V, samples_of, seed_offset

TOL_REL = 1e-10  # of |m_i|: rounding level of a direct solve (measured worst 2e-13)

TABLES_Q = ["T_ship_gas", "T_ship_oil", "S_zdip", "A_rise", "A_fall", "A_kink1e3", "A_jump", "A_zero"]
TABLES_T = TABLES_Q + ["T_hay", "T_lib", "A_kink", "A_const", "S_zlin", "S_zdip_desc"]
RATIOS = [0.0125, 0.5, 0.875, 0.99, 0.99875]
GRIDS = [("onestep", 2, 0), ("huge", 6, 0), ("repeat", 9, 0), ("uniform", 25, 2.0), ("quadratic", 40, 4.0),
         ("geometric", 40, 0), ("irregular", 30, 3.0), ("integer", 12, 0), ("float32", 20, 2.0)]
SCHEDS = ["scalar", "stepdown", "downup"]


def cases(tier, seed):
    thorough = tier == "thorough"
    tabs = TABLES_T if thorough else TABLES_Q
    nxs = [3, 4, 5, 10, 30, 60, 100, 400] if thorough else [3, 10, 60]
    p_is = [2000.0, 8000.0]
    off = seed_offset(seed)
    out = []
    # ideal reservoir: no table; the pressure pair only enters recovery, not the field
    for nx, (g, n, T) in itertools.product(nxs, GRIDS):
        out.append({"cls": "ideal", "table": None, "p_f": 1000.0, "p_i": 8000.0, "nx": nx,
                    "grid": g, "n": n, "T": T, "sched": "scalar", "seed": seed})
    for tab in tabs + ([] if thorough else ["T_lib"]):
        lo, hi = tables.table_range(tab)
        # T_lib (the library's own builder) starts at pseudopressure exactly 0: in quick only its table-min pair
        ratios = ["table-min"] if tab not in tabs else RATIOS + ["table-min"]
        for p_i, ratio, copy in itertools.product(p_is, ratios, (0, 1)):
            if ratio == "table-min":  # frac-face pressure exactly at the first table row
                if copy or p_i != 8000.0:
                    continue
                ratio = lo / p_i
            if copy == 1:  # secondary lattice copy: shifted inside the cell by the seed offset
                if seed == 0:
                    continue
                p_i_c = p_i + 10.0 * off * 37
                ratio_c = ratio + (1 - ratio) * 0.3 * off
            else:
                p_i_c, ratio_c = p_i, ratio
            p_f = lo if (ratio == lo / p_i and copy == 0) else ratio_c * p_i_c  # table-min: EXACTLY the first row
            if not (lo <= p_f < p_i_c <= hi):
                continue
            for nx, (g, n, T), sc in itertools.product(nxs, GRIDS, SCHEDS):
                if sc != "scalar" and n < 4:
                    continue
                out.append({"cls": "single", "table": tab, "p_f": p_f, "p_i": p_i_c, "nx": nx,
                            "grid": g, "n": n, "T": T, "sched": sc, "seed": seed})
    # the two-phase class reaches the same solver through its own simulate(): scalar frac-face pressure only
    for tab, ratio, nx, (g, n, T) in itertools.product(["T_ship_gas", "A_kink1e3"], [0.0125, 0.99875], nxs, GRIDS):
        lo, hi = tables.table_range(tab)
        if lo <= ratio * 8000.0:
            out.append({"cls": "two", "table": tab, "p_f": ratio * 8000.0, "p_i": 8000.0, "nx": nx,
                        "grid": g, "n": n, "T": T, "sched": "scalar", "seed": seed})
    # long runs (the repository's own tests use 1200 levels): anything gated on the number of levels
    for cls_, tab in (("ideal", None), ("single", "T_ship_gas")):
        for g, n, T in (("quadratic", 1500, 3.0), ("uniform", 3000, 6.0)):
            out.append({"cls": cls_, "table": tab, "p_f": 0.99875 * 8000.0 if cls_ == "single" else 1000.0, "p_i": 8000.0,
                        "nx": 10, "grid": g, "n": n, "T": T, "sched": "scalar", "seed": seed})
    # an object that has already run a scheduled simulation is run again with its scalar setting
    for tab, ratio, (g, n, T) in itertools.product(["T_ship_gas", "A_kink1e3"], [0.5, 0.99875], [("quadratic", 40, 4.0), ("huge", 6, 0)]):
        out.append({"cls": "single", "table": tab, "p_f": ratio * 8000.0, "p_i": 8000.0, "nx": 10, "grid": g, "n": n, "T": T,
                    "sched": "scalar", "seed": seed, "prior": True})
    # schedules given as integer arrays / lists of whole psi
    for tab, sc, form, (g, n, T) in itertools.product(["T_ship_gas", "A_rise"], ["stepdown", "downup"], ["int64", "list"],
                                                      [("quadratic", 40, 4.0), ("huge", 6, 0)]):
        out.append({"cls": "single", "table": tab, "p_f": 7000.0, "p_i": 8000.0, "nx": 10, "grid": g, "n": n, "T": T,
                    "sched": sc, "seed": seed, "sched_int": form})
    # p_frac/p_initial within 1e-5 and 1e-7 of 1 (inside any default np.isclose band): still a drawdown, still relaxes
    for tab, eps_r, (g, n, T) in itertools.product(["T_ship_gas", "A_kink1e3"], [1e-5, 1e-7],
                                                  [("onestep", 2, 0), ("huge", 6, 0), ("geometric", 40, 0)]):
        out.append({"cls": "single", "table": tab, "p_f": 8000.0 * (1 - eps_r), "p_i": 8000.0, "nx": 10, "grid": g, "n": n, "T": T,
                    "sched": "scalar", "seed": seed})
    # no drawdown at all: p_frac = p_initial is inside the quantifier (p_frac <= p_initial)
    for tab in ("T_ship_gas", "A_kink1e3"):
        out.append({"cls": "single", "table": tab, "p_f": 8000.0, "p_i": 8000.0, "nx": 10, "grid": "quadratic", "n": 40,
                    "T": 4.0, "sched": "scalar", "seed": seed})
    out.sort(key=lambda c: (c["nx"] * c["n"], c["cls"] != "ideal"))  # simplest first
    return out


def evaluate(case):
    cls, nx, n = case["cls"], case["nx"], case["n"]
    t = sim.time_grid(case["grid"], n, case["T"], case["seed"])
    n = len(t)
    p_min = tables.table_range(case["table"])[0] if case["table"] else 0.0
    sched = sim.schedule(case["sched"], n, case["p_f"], case["p_i"], p_min)
    res = sim.make_reservoir(cls, nx, case["p_f"], case["p_i"], case["table"])
    sched_in = sched
    if case.get("sched_int") and sched is not None:
        # whole-psi schedule handed over as an integer array / a list: same physics as the float array of those values
        sched = np.rint(sched)
        sched_in = sched.astype(np.int64) if case["sched_int"] == "int64" else [int(v) for v in sched]
    if case.get("prior"):  # the same object has run a scheduled simulation of the same length before: no trace may remain
        sim.simulate(res, t, sim.schedule("stepdown", n, case["p_f"], case["p_i"], p_min))
    sim.simulate(res, t, sched_in)
    u = np.asarray(res.pseudopressure, dtype=float)
    m_f, m_i = sim.frac_values(res, cls, case["p_f"], sched, n)
    tol = TOL_REL * abs(m_i)
    draw = m_i - m_f.min()
    viol = []
    if u.shape != (n, nx) or not np.all(np.isfinite(u)):
        return {"violations": [V("field/finite-shape", f"field has shape {u.shape}, finite={np.all(np.isfinite(u))}",
                                 case=case)], "states": n, "transitions": n - 1}
    # --- every state: bounds ---------------------------------------------------------------
    low = np.minimum.accumulate(m_f)
    under = low[:, None] - u
    over = u - m_i
    i_u, j_u = np.unravel_index(np.argmax(under), u.shape)
    i_o, j_o = np.unravel_index(np.argmax(over), u.shape)
    if under[i_u, j_u] > tol:
        viol.append(V("max-principle/lower", f"u[{i_u},{j_u}]={float(u[i_u, j_u])!r} is {under[i_u, j_u] / draw:.3g} "
                      f"drawdowns below the lowest frac-face value so far {float(low[i_u])!r}", case=case,
                      observed=float(u[i_u, j_u]), expected=float(low[i_u]), tol=tol))
    if over[i_o, j_o] > tol:
        viol.append(V("max-principle/upper", f"u[{i_o},{j_o}]={float(u[i_o, j_o])!r} exceeds the initial value "
                      f"{m_i!r} by {over[i_o, j_o] / draw:.3g} drawdowns", case=case,
                      observed=float(u[i_o, j_o]), expected=m_i, tol=tol))
    outcome = ["bounded"]
    if case["sched"] in ("scalar", "const"):
        # --- every state: non-decreasing away from the fracture ----------------------------
        dsp = u[:, :-1] - u[:, 1:]
        if dsp.max() > tol:
            i, j = np.unravel_index(np.argmax(dsp), dsp.shape)
            viol.append(V("monotone/space", f"profile at level {i} decreases from node {j} to {j + 1} by "
                          f"{dsp[i, j] / draw:.3g} drawdowns", case=case, observed=float(dsp[i, j]), tol=tol))
        # --- every transition: non-increasing in time beyond the node next to the fracture --
        if nx > 1 and n > 1:
            dtm = u[1:, 1:] - u[:-1, 1:]
            if dtm.size and dtm.max() > tol:
                i, j = np.unravel_index(np.argmax(dtm), dtm.shape)
                viol.append(V("monotone/time", f"node {j + 1} rises from level {i} to {i + 1} by "
                              f"{dtm[i, j] / draw:.3g} drawdowns under constant drawdown", case=case,
                              observed=float(dtm[i, j]), tol=tol))
        # --- relaxation to the frac-face value whatever the step size ----------------------
        dts = np.diff(t)
        if cls == "ideal":
            a_min = 1.0
        else:
            a_min = float(np.min(res.alpha_scaled(np.linspace(m_f[0], m_i, 4001))))
        lam = (np.pi / 2) ** 2 * a_min / 2
        decay = float(np.exp(-np.sum(np.log1p(lam * dts)))) * (2 * nx + 1)
        if decay < 1e-8:
            outcome.append("relaxed-horizon")
            gap = np.max(np.abs(u[-1] - m_f[0]))
            # the rigorous bound on what can be left, plus rounding of the solve (measured gaps 3e-12 .. 2e-14)
            allowed = max(100 * decay, 1e-9) * (m_i - m_f[0]) + 10 * tol
            if gap > allowed:
                viol.append(V("relaxation", f"after a horizon with rigorous decay bound {decay:.2g} the profile "
                              f"is still {gap / (m_i - m_f[0]):.4g} drawdowns from the frac-face value "
                              f"(grid {case['grid']}; allowed {allowed / (m_i - m_f[0]):.3g})", case=case,
                              observed=float(gap / (m_i - m_f[0])), expected=0.0, tol=float(allowed / (m_i - m_f[0]))))
    if draw / abs(m_i) < 0.02:
        outcome.append("ratio-near-1")
    return {"violations": viol, "states": n, "transitions": n - 1, "outcome": outcome,
            "nontrivial": bool(u.max() - u.min() > 1e-6 * draw)}


def run(ctx):
    cs = cases(ctx.tier, ctx.seed)
    res = ctx.pmap(evaluate, cs)
    cov = {
        "states": sum(r.get("states", 0) for r in res),
        "transitions": sum(r.get("transitions", 0) for r in res),
        "traces_validated_against_impl": len(cs),
        "runs": len(cs), "runs_nontrivial_field": sum(1 for r in res if r.get("nontrivial")),
        "samples": samples_of(cs),
        "lattice": {"grids": GRIDS, "schedules": SCHEDS, "ratios": RATIOS},
        "explanation": "one run = one path of the step-transition system; bounds are evaluated in "
                       "every state, monotonicity on every transition; every run is executed by the library",
    }
    return ctx.finish("model_checking", cov, [
        "tolerance 1e-10*|m_i| = rounding level of a direct tridiagonal solve",
        "relaxation is only demanded on horizons whose rigorous backward-Euler decay bound is < 1e-8",
    ])


def replay(case):
    return evaluate(case)["violations"]
