"""C19 - the Fluid facade and build_pvt_gas reproduce the stand-alone correlations; Sutton's
pseudocritical point reduces correctly; unknown fluid types are rejected."""

from __future__ import annotations

import itertools

import numpy as np

from ..common import V, purity_violations, samples_of, seed_offset

REL = 1e-13  # facade vs stand-alone correlation (behind an iterative root find for the gas methods)


def fluids(seed):
    fs = [dict(T=180.0, api=32.0, g=0.75, gor=500.0, sal=7.0), dict(T=265.0, api=41.0, g=0.92, gor=1250.0, sal=13.0),
          dict(T=95.0, api=18.0, g=0.61, gor=90.0, sal=0.5)]
    if seed:
        o = seed_offset(seed)
        fs.append(dict(T=round(80 + 300 * o, 1), api=round(12 + 40 * ((3 * o) % 1), 1), g=round(0.56 + 0.7 * ((5 * o) % 1), 3),
                       gor=round(50 + 2000 * ((7 * o) % 1), 0), sal=round(25 * ((11 * o) % 1), 2)))
    return fs


def rel_eq(a, b, rel=REL):
    a, b = np.asarray(a, dtype=float), np.asarray(b, dtype=float)
    return a.shape == b.shape and bool(np.all(np.abs(a - b) <= rel * np.maximum(np.abs(a), np.abs(b))))


def eval_facade(case):
    from bluebonnet.fluids import Fluid, gas, oil, water  # noqa: PLC0415

    f = case["fluid"]
    T, api, g, gor, sal = f["T"], f["api"], f["g"], f["gor"], f["sal"]
    fl = Fluid(T, api, g, gor, salinity=sal)
    pb = float(oil.pressure_bubblepoint_Standing(T, api, g, gor))
    p = np.array([1.0, 5.0, 14.7, 15.0, 0.3 * pb, 0.9 * pb, pb, 1.2 * pb, 2.0 * pb, 9000.0, 14000.0, 19000.0])
    tpc, ppc = case["pc"]
    pairs = {
        "water_FVF": (lambda: fl.water_FVF(p), [water.b_water_McCain(T, q) for q in p]),
        "water_viscosity": (lambda: fl.water_viscosity(p), [water.viscosity_water_McCain(T, q, sal) for q in p]),
        "gas_FVF": (lambda: fl.gas_FVF(p, tpc, ppc), [gas.b_factor_DAK(T, q, tpc, ppc) for q in p]),
        "gas_viscosity": (lambda: fl.gas_viscosity(p, tpc, ppc), [gas.viscosity_Sutton(T, q, tpc, ppc, g) for q in p]),
        "oil_FVF": (lambda: fl.oil_FVF(p), [oil.b_o_Standing(T, q, api, g, gor) for q in p]),
        "oil_viscosity": (lambda: fl.oil_viscosity(p), [oil.viscosity_beggs_robinson(T, q, api, g, gor) for q in p]),
        "pressure_bubblepoint": (lambda: fl.pressure_bubblepoint(), pb),
    }
    viol = []
    attrs0 = (fl.temperature, fl.api_gravity, fl.gas_specific_gravity, fl.solution_gor_initial, fl.salinity)
    for name, (call, want) in pairs.items():
        got = call()
        got2 = call()  # a second call on the same object: same answer, object untouched
        if not rel_eq(got2, got, 0):
            viol.append(V(f"facade-repeat/{name}", f"Fluid.{name} called twice on the same object gives two different answers",
                          case=case))
        if not rel_eq(got, want):
            viol.append(V(f"facade/{name}", f"Fluid.{name} = {np.asarray(got).tolist()} but the stand-alone correlation "
                          f"with the object's T={T}, api={api}, gravity={g}, GOR={gor}, salinity={sal} gives "
                          f"{np.asarray(want).tolist()}", case=case, tol=REL))
    if (fl.temperature, fl.api_gravity, fl.gas_specific_gravity, fl.solution_gor_initial, fl.salinity) != attrs0:
        viol.append(V("facade/attributes-modified", f"using the methods changed the object's attributes from {attrs0} to "
                      f"{(fl.temperature, fl.api_gravity, fl.gas_specific_gravity, fl.solution_gor_initial, fl.salinity)}", case=case))
    # scalar pressures (Python float and 0-d array) for the methods that accept them
    for name, fn, ref in (("oil_FVF", fl.oil_FVF, lambda q: oil.b_o_Standing(T, q, api, g, gor)),
                          ("oil_viscosity", fl.oil_viscosity, lambda q: oil.viscosity_beggs_robinson(T, q, api, g, gor)),
                          ("water_viscosity", fl.water_viscosity, lambda q: water.viscosity_water_McCain(T, q, sal))):
        for q in (float(p[5]), float(p[8]), np.array(float(p[9]))):
            try:
                got = np.asarray(fn(q), dtype=float)
            except Exception as e:  # noqa: BLE001
                viol.append(V(f"facade-scalar/{name}", f"Fluid.{name}({q!r}) raises {type(e).__name__}: {e}", case=case))
                break
            if got.shape != () or not rel_eq(got, ref(float(q))):
                viol.append(V(f"facade-scalar/{name}", f"Fluid.{name}({q!r}) = {got.tolist()!r}; stand-alone correlation gives "
                              f"{float(ref(float(q)))!r}", case=case))
                break
    # the same methods on a shuffled pressure array with repeats: values belong to their own positions
    order = [6, 3, 8, 3, 5, 9, 5, 0, 11]
    p_sh = p[order]
    for name, fn, want in (("gas_FVF", lambda q: fl.gas_FVF(q, tpc, ppc), [gas.b_factor_DAK(T, x, tpc, ppc) for x in p_sh]),
                           ("gas_viscosity", lambda q: fl.gas_viscosity(q, tpc, ppc), [gas.viscosity_Sutton(T, x, tpc, ppc, g) for x in p_sh]),
                           ("water_FVF", fl.water_FVF, [water.b_water_McCain(T, x) for x in p_sh]),
                           ("oil_FVF", fl.oil_FVF, [oil.b_o_Standing(T, x, api, g, gor) for x in p_sh]),
                           ("oil_viscosity", fl.oil_viscosity, [oil.viscosity_beggs_robinson(T, x, api, g, gor) for x in p_sh])):
        try:
            got = np.asarray(fn(p_sh.copy()), dtype=float)
        except Exception as e:  # noqa: BLE001
            viol.append(V(f"facade-unordered/{name}", f"Fluid.{name} on a shuffled pressure array with repeats raises "
                          f"{type(e).__name__}: {e}", case=case))
            continue
        if not rel_eq(got, want):
            viol.append(V(f"facade-unordered/{name}", f"Fluid.{name} on the shuffled array {p_sh.tolist()} returns values that "
                          "do not belong to their positions", case=case))
    # long requests (a whole table column, a simulation's pressure field): 1500 and 4097 pressures in no particular order -
    # every element still is the stand-alone correlation at that pressure, whatever else is in the array
    for n_long in (1500, 4097):
        base_ = np.geomspace(1.0, 19000.0, n_long)
        p_long = np.concatenate([base_[1::2][::-1], base_[0::2]])
        for name, fn, ref in (("gas_FVF", lambda q: fl.gas_FVF(q, tpc, ppc), lambda x: gas.b_factor_DAK(T, x, tpc, ppc)),
                              ("gas_viscosity", lambda q: fl.gas_viscosity(q, tpc, ppc), lambda x: gas.viscosity_Sutton(T, x, tpc, ppc, g)),
                              ("water_FVF", fl.water_FVF, lambda x: water.b_water_McCain(T, x)),
                              ("water_viscosity", fl.water_viscosity, lambda x: water.viscosity_water_McCain(T, x, sal)),
                              ("oil_FVF", fl.oil_FVF, lambda x: oil.b_o_Standing(T, x, api, g, gor)),
                              ("oil_viscosity", fl.oil_viscosity, lambda x: oil.viscosity_beggs_robinson(T, x, api, g, gor))):
            if n_long > 2000 and not name.startswith("gas"):
                continue
            try:
                got = np.asarray(fn(p_long.copy()), dtype=float)
            except Exception as e:  # noqa: BLE001
                viol.append(V(f"facade-long/{name}", f"Fluid.{name} on {n_long} pressures raises {type(e).__name__}: {e}", case=case))
                continue
            want = np.array([float(ref(float(x))) for x in p_long])
            if not rel_eq(got, want):
                k = int(np.argmax(np.abs(got - want) / np.maximum(np.abs(want), 1e-300))) if got.shape == want.shape else 0
                viol.append(V(f"facade-long/{name}", f"Fluid.{name} on an array of {n_long} pressures: element {k} (p={p_long[k]:.6g}) is "
                              f"{got.ravel()[k] if got.size > k else None!r}, the stand-alone correlation gives {want[k]!r}", case=case, tol=REL))
    # history: the object's public attributes are reassigned one at a time on the SAME object (after the
    # calls above); every method must follow the object's *current* attributes
    expect = {"temperature": T, "api_gravity": api, "gas_specific_gravity": g, "solution_gor_initial": gor, "salinity": sal}
    for attr, new in (("temperature", T + 85.0), ("api_gravity", api + 6.0), ("gas_specific_gravity", g + 0.11),
                      ("solution_gor_initial", gor * 1.4), ("salinity", sal + 4.0)):
        try:
            setattr(fl, attr, new)
        except (AttributeError, TypeError):  # an immutable (frozen) Fluid cannot have a reassignment history
            break
        expect[attr] = new  # (the references come from what was assigned, not from what the object now says)
        T2, api2, g2, gor2, sal2 = (expect["temperature"], expect["api_gravity"], expect["gas_specific_gravity"],
                                    expect["solution_gor_initial"], expect["salinity"])
        wants = {
            "water_FVF": [water.b_water_McCain(T2, q) for q in p],
            "water_viscosity": [water.viscosity_water_McCain(T2, q, sal2) for q in p],
            "gas_FVF": [gas.b_factor_DAK(T2, q, tpc, ppc) for q in p],
            "gas_viscosity": [gas.viscosity_Sutton(T2, q, tpc, ppc, g2) for q in p],
            "oil_FVF": [oil.b_o_Standing(T2, q, api2, g2, gor2) for q in p],
            "oil_viscosity": [oil.viscosity_beggs_robinson(T2, q, api2, g2, gor2) for q in p],
            "pressure_bubblepoint": oil.pressure_bubblepoint_Standing(T2, api2, g2, gor2),
        }
        for name, (call, _) in pairs.items():
            got = call()
            if not rel_eq(got, wants[name]):
                viol.append(V(f"facade-after-reassignment/{name}", f"after fluid.{attr} = {new} on the same object, "
                              f"Fluid.{name} = {np.asarray(got).ravel()[:3].tolist()}... but the stand-alone correlation "
                              f"with the object's current attributes gives {np.asarray(wants[name]).ravel()[:3].tolist()}...",
                              case=dict(case, reassigned=attr), tol=REL))
                break
    now = (fl.temperature, fl.api_gravity, fl.gas_specific_gravity, fl.solution_gor_initial, fl.salinity)
    if now != tuple(expect[k] for k in ("temperature", "api_gravity", "gas_specific_gravity", "solution_gor_initial", "salinity")):
        viol.append(V("facade/attributes-modified", f"Fluid attributes after the reassignments are {now}, not what was assigned",
                      case=case))
    return {"violations": viol, "evals": len(pairs), "outcome": "facade", "key": ("f", T, tpc)}


def gas_values(c):
    return {"N2": c["cont"][0], "H2S": c["cont"][1], "CO2": c["cont"][2], "Gas Specific Gravity": c["g"],
            "Reservoir Temperature (deg F)": c["T"]}


def eval_table(case):
    from bluebonnet.fluids import build_pvt_gas, gas  # noqa: PLC0415

    g, T, cont, dry, pmax = case["g"], case["T"], case["cont"], case["dry"], case["pmax"]
    # history first: tables that differ in exactly one argument (too coarse a cache key would be exposed)
    other = "wet gas" if dry == "dry gas" else "dry gas"
    build_pvt_gas(gas_values(case), other, maximum_pressure=pmax)
    build_pvt_gas(gas_values(dict(case, g=g + 0.1)), dry, maximum_pressure=pmax)
    build_pvt_gas(gas_values(dict(case, cont=[cont[0], cont[1] + 0.01, cont[2]])), dry, maximum_pressure=pmax)
    build_pvt_gas(gas_values(dict(case, cont=[cont[0] + 0.01, cont[1], cont[2]])), dry, maximum_pressure=pmax)
    build_pvt_gas(gas_values(dict(case, cont=[cont[0], cont[1], cont[2] + 0.01])), dry, maximum_pressure=pmax)
    build_pvt_gas(gas_values(dict(case, T=T + 15.0)), dry, maximum_pressure=pmax)
    build_pvt_gas(gas_values(case), dry, maximum_pressure=pmax + 30)
    vals = gas_values(case)
    snap = dict(vals)
    tab = build_pvt_gas(vals, dry) if case.get("default_pmax") else build_pvt_gas(vals, dry, maximum_pressure=pmax)
    viol = []
    if vals != snap:
        viol.append(V("table/caller-dict-modified", "build_pvt_gas modified its gas_values argument", case=case))
    # the caller edits the table it was given (unit conversion, dropped column) and asks for the same table again:
    # the second table is a fresh one
    if len(tab) and not case.get("default_pmax"):
        first = tab.copy(deep=True)
        tab["pressure"] -= 14.7
        tab["viscosity"] *= 1e-3
        tab.drop(columns=[c for c in tab.columns if c.lower() == "density"], inplace=True)
        again = build_pvt_gas(dict(snap), dry, maximum_pressure=pmax)
        if list(again.columns) != list(first.columns) or not np.array_equal(again.to_numpy(dtype=float), first.to_numpy(dtype=float)):
            viol.append(V("table/second-call-sees-callers-edits", "after the caller edited the first table in place, a second "
                          "build_pvt_gas call with the same arguments returns the edited table", case=case))
        tab = first
    nh = gas.make_nonhydrocarbon_properties(*cont)
    tpc, ppc = gas.pseudocritical_point_Sutton(g, nh, dry)
    p = np.asarray(tab["pressure"], dtype=float)
    want_p = np.arange(1, int(np.ceil(pmax / 10.0 - 1e-9))) * 10.0
    want_p = want_p[want_p < pmax]
    if not np.array_equal(p, want_p):
        viol.append(V("table/pressure-grid", f"pressure grid for maximum {pmax}: first {p[:2].tolist()}, last "
                      f"{p[-2:].tolist()}, {len(p)} rows; expected 10, 20, ... < {pmax} ({len(want_p)} rows)", case=case,
                      observed=p[-3:].tolist(), expected=want_p[-3:].tolist()))
        return {"violations": viol, "evals": 1, "outcome": "grid"}
    stride = case.get("stride", 1)
    idx = np.unique(np.concatenate([np.arange(0, len(p), stride), np.arange(min(12, len(p))), np.arange(max(0, len(p) - 12), len(p)),
                                    (np.arange(1, 40) * 0.6180339887498949 % 1 * len(p)).astype(int)]))
    tab = tab.iloc[idx].reset_index(drop=True)
    p = p[idx]
    cols = {
        "z-factor": [gas.z_factor_DAK(T, q, tpc, ppc) for q in p],
        "Density": [gas.density_DAK(T, q, tpc, ppc, g) for q in p],
        "viscosity": [gas.viscosity_Sutton(T, q, tpc, ppc, g) for q in p],
        "compressibility": [gas.compressibility_DAK(T, q, tpc, ppc) for q in p],
        "temperature": [T] * len(p),
    }
    for col, want in cols.items():
        name = col if col in tab else col.lower()
        if name not in tab:
            viol.append(V("table/column-missing", f"column {col!r} missing: {list(tab.columns)}", case=case))
            continue
        got = np.asarray(tab[name], dtype=float)
        if not rel_eq(got, want, 1e-12):
            k = int(np.argmax(np.abs(got - np.asarray(want))))
            viol.append(V(f"table/{col}", f"row p={p[k]}: table {col} = {got[k]!r}, stand-alone correlation at the "
                          f"Sutton point ({tpc:.6g} F, {ppc:.6g} psia) = {want[k]!r}", case=case, observed=float(got[k]),
                          expected=float(want[k]), tol=1e-12))
    return {"violations": viol, "evals": len(p), "outcome": "table", "key": ("t", g, T, tuple(cont), dry, pmax)}


def eval_sutton(case):
    from bluebonnet.fluids import gas  # noqa: PLC0415

    g, cont, dry = case["g"], case["cont"], case["dry"]
    viol = []
    ref_now = gas.pseudocritical_point_Sutton(g, gas.make_nonhydrocarbon_properties(*cont), dry)  # make and use at once
    nh = gas.make_nonhydrocarbon_properties(*cont)
    other = gas.make_nonhydrocarbon_properties(0.05, 0.02, 0.07)  # a second composition created before the first is used
    if not np.array_equal(np.asarray(nh["fraction"][:3], dtype=float), np.asarray(cont, dtype=float)) or len(other) != 3:
        viol.append(V("sutton/composition-aliased", f"creating another composition changed an earlier one: fractions "
                      f"{nh['fraction'][:3].tolist()} instead of {cont}", case=case))
    base = gas.pseudocritical_point_Sutton(g, nh, dry)
    if not rel_eq(base, ref_now, 0):
        viol.append(V("sutton/composition-aliased", f"pseudocritical point of a composition created earlier {base} differs "
                      f"from make-and-use-immediately {ref_now}", case=case))
    nh_x = gas.make_nonhydrocarbon_properties(*cont, ("Helium", 0.0, 4.0026, 9.34, 33.2))
    extra = gas.pseudocritical_point_Sutton(g, nh_x, dry)
    if not rel_eq(base, extra, 1e-13):
        viol.append(V("sutton/zero-fraction-component", f"a zero-fraction extra component changes the pseudocritical "
                      f"point from {base} to {extra}", case=case))
    if not any(cont):
        if dry == "dry gas":
            t, p = 120.1 + 429 * g - 62.9 * g**2, 671.1 - 14 * g - 34.3 * g**2
        else:
            t, p = 164.3 + 357.7 * g - 67.7 * g**2, 744 - 125.4 * g + 5.9 * g**2
        if not rel_eq([base[0] + 459.67, base[1]], [t, p], 1e-10):
            viol.append(V("sutton/hydrocarbon-only", f"with no contaminants the pseudocritical point is "
                          f"({base[0] + 459.67!r} R, {base[1]!r} psia); hydrocarbon-only correlation gives ({t!r}, {p!r})",
                          case=case, observed=list(base), expected=[t - 459.67, p]))
    for bad in ("oil", "Dry Gas", "", "wet", "dry gas ", " dry gas", "dry  gas", "dry-gas", "dry_gas", "drygas", "dry gas\n", "wet gas."):
        try:
            gas.pseudocritical_point_Sutton(g, nh, bad)
            viol.append(V("sutton/unknown-type-accepted", f"fluid type {bad!r} was accepted", case=case))
        except Exception:  # noqa: BLE001 - "rejected", whatever the error type
            pass
    from bluebonnet.fluids import build_pvt_gas  # noqa: PLC0415

    try:
        build_pvt_gas(gas_values(dict(case, T=200.0)), "oil", maximum_pressure=50)
        viol.append(V("table/unknown-type-accepted", "build_pvt_gas accepted fluid type 'oil'", case=case))
    except Exception:  # noqa: BLE001
        pass
    for bad in ("dry gas ", "dry-gas", "gas", ""):  # the builder itself, not only the Sutton function
        try:
            build_pvt_gas(gas_values(dict(case, T=200.0)), bad, maximum_pressure=50)
            viol.append(V("table/unknown-type-accepted", f"build_pvt_gas accepted fluid type {bad!r}", case=case))
        except Exception:  # noqa: BLE001
            pass
    return {"violations": viol, "evals": 3, "outcome": "sutton", "key": ("s", g, tuple(cont), dry)}


def eval_purity(case):
    from bluebonnet.fluids import gas  # noqa: PLC0415

    calls = []
    for c in case["comps"]:
        for dry in ("dry gas", "wet gas"):
            calls.append(("build_pvt_gas[z]", "bluebonnet.fluids.fluid:build_pvt_gas", (gas_values(c), dry, 300.0), "z-factor"))
            calls.append(("build_pvt_gas[m]", "bluebonnet.fluids.fluid:build_pvt_gas", (gas_values(c), dry, 300.0), "pseudopressure"))
            nh = gas.make_nonhydrocarbon_properties(*c["cont"])
            calls.append(("pseudocritical_point_Sutton", "bluebonnet.fluids.gas:pseudocritical_point_Sutton", (c["g"], nh, dry)))
    viol = purity_violations(calls)
    for v in viol:
        v["case"] = dict(case, call=str(v["case"]["call"]))
    return {"violations": viol[:3], "evals": len(calls) * 3, "outcome": "purity"}


def evaluate(case):
    return {"facade": eval_facade, "table": eval_table, "sutton": eval_sutton, "purity": eval_purity}[case["kind"]](case)


def cases(tier, seed):
    out = [{"kind": "facade", "fluid": f, "pc": list(pc)} for f, pc in
           itertools.product(fluids(seed), [(-72.2, 653.0), (-102.2, 648.5), (0.0, 640.0)])]  # 0.0 F: a legal pseudocritical temperature (gravity ~1.05) that is falsy
    conts = [[0.0, 0.0, 0.0], [0.03, 0.012, 0.018]] + ([[0.1, 0.0, 0.0], [0.0, 0.08, 0.0], [0.0, 0.0, 0.12]]
                                                        if tier == "thorough" else [])
    gs = [0.6, 0.8] + ([0.7, 1.0, 1.2] if tier == "thorough" else [])
    # maxima just above a multiple of 10 (100.5, 20.25) and an int (like the default 14_000); max <= 10 would be empty
    pmaxs = [95.0, 100.0, 100.5, 20.25, 105.0, 600.0, 300] + ([20.0, 20.5, 2340.75, 3000.0] if tier == "thorough" else [])
    for g, cont, dry, pmax in itertools.product(gs, conts, ["dry gas", "wet gas"], pmaxs):
        out.append({"kind": "table", "g": g, "T": 210.4 if g < 0.7 else 330.75, "cont": cont, "dry": dry, "pmax": pmax})
    # full-size tables (the default maximum of 14 000 psia, once left to the default argument): a stride of rows in
    # quick, every row in thorough
    for g, cont, dry, dflt in [(0.65, [0.03, 0.012, 0.018], "dry gas", True), (0.9, [0.0, 0.05, 0.0], "wet gas", False)]:
        out.append({"kind": "table", "g": g, "T": 247.3, "cont": cont, "dry": dry, "pmax": 14000, "default_pmax": dflt,
                    "stride": 1 if tier == "thorough" else 37})
    for g, cont, dry in itertools.product([0.57, 0.65, 0.8, 1.0, 1.2], conts, ["dry gas", "wet gas"]):
        out.append({"kind": "sutton", "g": g, "cont": cont, "dry": dry})
    out.append({"kind": "purity", "comps": [{"g": 0.65, "T": 200.0, "cont": [0.0, 0.0, 0.0]},
                                           {"g": 0.65, "T": 200.0, "cont": [0.02, 0.0, 0.0]},
                                           {"g": 0.65, "T": 200.0, "cont": [0.0, 0.02, 0.0]},
                                           {"g": 0.65, "T": 200.0, "cont": [0.0, 0.0, 0.02]},
                                           {"g": 0.85, "T": 200.0, "cont": [0.0, 0.0, 0.0]},
                                           {"g": 0.65, "T": 300.0, "cont": [0.0, 0.0, 0.0]}]})
    return out


def run(ctx):
    cs = cases(ctx.tier, ctx.seed)
    res = ctx.pmap(evaluate, cs, chunksize=1)
    cov = {
        "evaluations": sum(r.get("evals", 0) for r in res),
        "distinct_nontrivial": len({tuple(map(str, r["key"])) for r in res if r.get("key")}),
        "rule": "facade: every Fluid method x parameter sets with pairwise distinct values x 7 pressures across "
                "the bubble point; table: every row of every (gravity, contaminants, dryness, maximum pressure) "
                "table; sutton: reduction and rejection clauses; non-trivial = distinct parameter set",
        "samples": samples_of(cs),
    }
    return ctx.finish("exploration", cov, [
        "parameter sets are pairwise distinct so that swapped or dropped arguments change the answer",
    ])


def replay(case):
    case = {k: v for k, v in case.items() if k != "reassigned"}
    return evaluate(case)["violations"]
