"""C08 - the three pseudopressure routes (adaptive quadrature, tabulating builder, stand-alone
transform) agree on differences, vanish at their reference, increase strictly and are additive."""

from __future__ import annotations

import itertools

import numpy as np

from ..common import LCG, V, samples_of, seed_offset



def compositions(tier, seed):
    cs = [{"gravity": 0.65, "T": 300.0, "cont": [0.03, 0.012, 0.018], "dry": "dry gas"},
          {"gravity": 0.8, "T": 200.0, "cont": [0.0, 0.0, 0.0], "dry": "wet gas"}]
    cs += [{"gravity": 0.7, "T": 215.75, "cont": [0.01, 0.0, 0.02], "dry": "dry gas", "int_pmax": True},
           {"gravity": 0.95, "T": 95.0, "cont": [0.02, 0.15, 0.03], "dry": "wet gas"},  # cold heavy sour gas, T_r ~ 1.25
           {"gravity": 0.57, "T": 120.0, "cont": [0.0, 0.0, 0.0], "dry": "dry gas"},
           {"gravity": 1.1, "T": 400.0, "cont": [0.05, 0.01, 0.04], "dry": "wet gas"},
           {"gravity": 0.9, "T": 250.0, "cont": [0.1, 0.0, 0.0], "dry": "dry gas"},
           {"gravity": 0.7, "T": 180.0, "cont": [0.0, 0.05, 0.1], "dry": "wet gas"}]
    if tier == "thorough":
        for g, T, dry in itertools.product([0.6, 0.75, 1.0, 1.2], [100.0, 220.0, 350.0], ["dry gas", "wet gas"]):
            cs.append({"gravity": g, "T": T, "cont": [0.02, 0.01, 0.03], "dry": dry})
    if seed:
        off = seed_offset(seed)
        cs.append({"gravity": round(0.6 + 0.5 * off, 3), "T": round(150 + 200 * off, 1),
                   "cont": [0.01, 0.0, 0.02], "dry": "dry gas"})
    return cs


def eval_comp(case):
    import bluebonnet.fluids as fluid_mod  # noqa: PLC0415  (public names: build_pvt_gas, pseudopressure)
    from bluebonnet.fluids import build_pvt_gas, gas  # noqa: PLC0415

    g, T, cont, dry = case["gravity"], case["T"], case["cont"], case["dry"]
    pmax = int(case["pmax"]) if case.get("int_pmax") else case["pmax"]  # the default 14_000 is an int
    vals = {"N2": cont[0], "H2S": cont[1], "CO2": cont[2], "Gas Specific Gravity": g,
            "Reservoir Temperature (deg F)": T}
    # history: the same process first builds neighbouring tables that differ in exactly one argument
    # (a result cached under too coarse a key would now be served for the real call)
    other = "wet gas" if dry == "dry gas" else "dry gas"
    build_pvt_gas(dict(vals), other, maximum_pressure=pmax)
    build_pvt_gas(dict(vals, **{"Gas Specific Gravity": g + 0.05}), dry, maximum_pressure=pmax)
    build_pvt_gas(dict(vals, **{"Reservoir Temperature (deg F)": T + 25.0}), dry, maximum_pressure=pmax)
    build_pvt_gas(dict(vals, N2=cont[0] + 0.02), dry, maximum_pressure=pmax)
    build_pvt_gas(dict(vals, H2S=cont[1] + 0.02), dry, maximum_pressure=pmax)
    build_pvt_gas(dict(vals, CO2=cont[2] + 0.02), dry, maximum_pressure=pmax)
    build_pvt_gas(dict(vals), dry, maximum_pressure=pmax - 500)
    tab = build_pvt_gas(dict(vals), dry, maximum_pressure=pmax)
    nh = gas.make_nonhydrocarbon_properties(*cont)
    tpc, ppc = gas.pseudocritical_point_Sutton(g, nh, dry)
    p = tab["pressure"].to_numpy()
    m_tab = tab["pseudopressure"].to_numpy()
    m_sa = np.asarray(fluid_mod.pseudopressure(p, tab["viscosity"].to_numpy(), tab["z-factor"].to_numpy()))
    viol = []
    evals = 0
    # the stand-alone transform given the table's own columns (pandas Series), and a row-filtered frame whose index
    # does not start at 0: values are relative to the first row handed in
    try:
        m_ser = np.asarray(fluid_mod.pseudopressure(tab["pressure"], tab["viscosity"], tab["z-factor"]), dtype=float)
        k0 = len(tab) // 3
        sub = tab[tab["pressure"] >= float(p[k0])]
        m_sub = np.asarray(fluid_mod.pseudopressure(sub["pressure"], sub["viscosity"], sub["z-factor"]), dtype=float)
        if not (np.allclose(m_ser, m_sa, rtol=1e-13, atol=0)
                and np.allclose(m_sub, m_sa[k0:] - m_sa[k0], rtol=1e-10, atol=1e-10 * abs(m_sa[-1]))):
            viol.append(V("standalone/series-input", "fluids.pseudopressure on the table's own columns (pandas Series), or on a "
                          "row-filtered frame, differs from the same transform on plain arrays", case=case))
    except Exception as e:  # noqa: BLE001
        viol.append(V("standalone/series-input", f"fluids.pseudopressure on pandas Series raises {type(e).__name__}: {e}",
                      case=case))
    if m_tab[0] != 0 or m_sa[0] != 0:
        viol.append(V("zero-at-reference/table", f"table / stand-alone pseudopressure at the first pressure: "
                      f"{m_tab[0]!r} / {m_sa[0]!r}", case=case))
    if not np.allclose(m_tab, m_sa, rtol=1e-12, atol=0):
        k = int(np.argmax(np.abs(m_tab - m_sa)))
        viol.append(V("table-equals-standalone", f"build_pvt_gas and fluids.pseudopressure differ at p={p[k]}: "
                      f"{m_tab[k]!r} vs {m_sa[k]!r}", case=case, tol=1e-12))
    for name, arr in (("table", m_tab), ("stand-alone", m_sa)):
        if not np.all(np.diff(arr) > 0):
            k = int(np.argmin(np.diff(arr)))
            viol.append(V(f"strictly-increasing/{name}", f"{name} pseudopressure does not increase from p={p[k]} "
                          f"to {p[k + 1]}", case=case))

    def H(pp, std=14.7):
        return gas.pseudopressure_Hussainy(T, pp, tpc, ppc, g, pressure_standard=std)

    if H(14.7) != 0:
        viol.append(V("zero-at-reference/quadrature", f"pseudopressure_Hussainy at its reference = {H(14.7)!r}",
                      case=case))
    nodes = [q for q in case["nodes"] if q < pmax]
    # history for the quadrature route: neighbours that share (T, p, gravity, reference) but not the pseudocritical
    # point, then neighbours in T and in gravity - a result remembered under too coarse a key would now be served
    for q in nodes:
        gas.pseudopressure_Hussainy(T, q, tpc + 7.0, ppc - 11.0, g, pressure_standard=14.7)
        gas.pseudopressure_Hussainy(T + 25.0, q, tpc, ppc, g, pressure_standard=14.7)
        gas.pseudopressure_Hussainy(T, q, tpc, ppc, g + 0.05, pressure_standard=14.7)
    q0 = nodes[len(nodes) // 2]
    if gas.pseudopressure_Hussainy(T, q0, tpc, ppc, g) != H(q0):
        viol.append(V("quadrature/default-reference", "pseudopressure_Hussainy with its default reference pressure differs "
                      "from the call with pressure_standard=14.7", case=case))
    f_int = 2 * p / (tab["viscosity"].to_numpy() * tab["z-factor"].to_numpy())
    f2 = np.abs(np.gradient(np.gradient(f_int, p), p))
    f2 = np.maximum(f2, np.roll(f2, 1))
    rem = np.diff(p) ** 3 / 12 * np.maximum(f2[:-1], f2[1:])  # per-cell trapezoid remainder bound
    hq = {q: H(q) for q in nodes}
    at = {q: int(np.argmin(np.abs(p - q))) for q in nodes}
    for p1, p2 in itertools.permutations(nodes, 2):
        evals += 1
        dq = hq[p2] - hq[p1]
        dt = m_tab[at[p2]] - m_tab[at[p1]]
        ds = m_sa[at[p2]] - m_sa[at[p1]]
        lo, hi = sorted((at[p1], at[p2]))
        tol = 1e-6 + 2 * float(np.sum(rem[lo:hi])) / abs(dq)  # trapezoid remainder bound of the 10-psi grid (x2)
        for name, d in (("table", dt), ("stand-alone", ds)):
            if not abs(d / dq - 1) <= tol:
                viol.append(V(f"routes-agree/{name}", f"m({p2}) - m({p1}): quadrature {dq:.10g}, {name} {d:.10g} "
                              f"({abs(d / dq - 1):.3g} relative)", case=dict(case, pair=[p1, p2]), observed=d,
                              expected=dq, tol=tol))
    # off-node, non-integer end points and reference: the quadrature route against a harness-side Gauss-Legendre integral
    # of 2p/(mu Z) built from the library's own viscosity and Z (40 panels x 8 points per pair), strictly increasing
    xg, wg = np.polynomial.legendre.leggauss(8)

    def gl(a, b):
        edges = np.geomspace(a, b, 41)
        tot = 0.0
        for lo_, hi_ in zip(edges[:-1], edges[1:]):
            xm, xr = 0.5 * (lo_ + hi_), 0.5 * (hi_ - lo_)
            qs = xm + xr * xg
            f = np.array([2 * q / (gas.viscosity_Sutton(T, float(q), tpc, ppc, g) * gas.z_factor_DAK(T, float(q), tpc, ppc)) for q in qs])
            tot += xr * float(np.dot(wg, f))
        return tot

    off = [14.7 * np.sqrt(2.0), 123.4567, 1234.567, 8765.4321]
    off = [q for q in off if q < pmax]
    for a, b in zip(off[:-1], off[1:]):
        evals += 1
        got = gas.pseudopressure_Hussainy(T, b, tpc, ppc, g, pressure_standard=a)
        want = gl(a, b)
        if not abs(got / want - 1) <= 1e-7:
            viol.append(V("quadrature/off-node", f"pseudopressure_Hussainy from {a:.9g} to {b:.9g} psia = {got!r}; Gauss-Legendre "
                          f"integral of 2p/(mu Z) with the library's own mu and Z = {want!r} ({abs(got / want - 1):.3g} relative)",
                          case=case, observed=got, expected=want, tol=1e-7))
        up = gas.pseudopressure_Hussainy(T, b * (1 + 1e-6), tpc, ppc, g, pressure_standard=a)
        mid = gas.pseudopressure_Hussainy(T, 0.5 * (a + b) + 0.123, tpc, ppc, g, pressure_standard=a) + \
            gas.pseudopressure_Hussainy(T, b, tpc, ppc, g, pressure_standard=0.5 * (a + b) + 0.123)
        if not (up > got and abs(mid / got - 1) <= 1e-8):
            viol.append(V("quadrature/off-node", f"between {a:.9g} and {b:.9g} psia the quadrature route is not strictly increasing "
                          f"(m(b(1+1e-6)) - m(b) = {up - got:.3g}) or not additive at a non-integer split ({abs(mid / got - 1):.3g})",
                          case=case))
    for p1, p2, p3 in itertools.combinations(sorted(nodes), 3):
        evals += 1
        whole = H(p3, std=p1)
        parts = H(p2, std=p1) + H(p3, std=p2)
        if not abs(parts / whole - 1) <= 1e-8:
            viol.append(V("additivity/quadrature", f"m({p1}->{p3}) = {whole!r} but m({p1}->{p2}) + m({p2}->{p3}) = "
                          f"{parts!r}", case=dict(case, triple=[p1, p2, p3]), tol=1e-8))
    return {"violations": viol[:6], "evals": evals, "outcome": "composition", "key": (g, T, dry)}


def _grid(kind, seed):
    if kind == "uniform":
        return np.arange(10.0, 8000.0, 10.0)
    if kind == "geometric":
        return 10.0 * 1.02 ** np.arange(340)
    if kind == "window":
        # a finely resolved window at high pressure whose steps alternate between 0.002 and 0.03 psi: far from evenly
        # spaced, yet within 1e-5 of the pressure itself of an even grid
        return 6000.0 + np.concatenate([[0.0], np.cumsum(np.tile([0.002, 0.03], 120))])
    if kind == "ramp":
        # steps growing linearly from 0.01 to 0.05 psi around 9000 psia (same remark)
        return 9000.0 + np.concatenate([[0.0], np.cumsum(np.linspace(0.01, 0.05, 300))])
    g = LCG(seed + 11)
    return 10.0 + np.cumsum(np.array([0.5 + 40 * g.next() ** 2 for _ in range(600)]))


def eval_synth(case):
    from bluebonnet.fluids import fluid as fluid_mod  # noqa: PLC0415

    p = _grid(case["grid"].replace("-desc", "").replace("-int", ""), case["seed"])
    if "-desc" in case["grid"]:
        p = p[::-1].copy()  # listed from high to low pressure: values are relative to the first row
    p_in = p
    if "-int" in case["grid"]:
        # whole-psi pressures held in an integer array (a table read from a file of integers); mu = 5 cp below so
        # that several cells contribute less than 1 psi^2/cp each
        p = np.rint(p)
        p = p[np.concatenate(([True], np.diff(p) != 0))]
        p_in = p.astype(np.int64 if case["seed"] % 2 == 0 else np.int32)
    viol = []
    if case["integrand"] == "linear":
        mu0 = 5.0 if "-int" in case["grid"] else 0.02
        mu, z = np.full_like(p, mu0), np.full_like(p, 0.9)
        exact = (p**2 - p[0] ** 2) / (mu0 * 0.9)
        exact_scale = abs(exact[-1])
        tol = 1e-12 if p[0] < 100 else 1e-9  # (p^2 - p0^2 cancels eight digits in a narrow high-pressure window)
    else:
        zf = lambda q: 1 - 3e-5 * q + 4e-9 * q**2  # noqa: E731
        muf = lambda q: 0.015 * np.exp(5e-5 * q)  # noqa: E731
        mu, z = muf(p), zf(p)
        f = lambda q: 2 * q / (muf(q) * zf(q))  # noqa: E731
        exact = np.zeros_like(p)
        for k in range(len(p) - 1):  # 3-point Gauss-Legendre per cell: exact far below the trapezoid error
            a, b = p[k], p[k + 1]
            xm, xr = 0.5 * (a + b), 0.5 * (b - a)
            s = 5 / 9 * f(xm - xr * np.sqrt(0.6)) + 8 / 9 * f(xm) + 5 / 9 * f(xm + xr * np.sqrt(0.6))
            exact[k + 1] = exact[k] + xr * s
        exact_scale = abs(exact[-1])
        h = np.abs(np.diff(p))
        f2 = np.max(np.abs(np.gradient(np.gradient(f(p), p), p)))
        tol = max(1e-12, 2 * float(np.sum(h**3) / 12 * f2) / exact_scale)  # trapezoid remainder bound (x2)
    before = (p_in.copy(), mu.copy(), z.copy())
    fluid_mod.pseudopressure(p_in, mu * 1.7, z * 0.9)  # history: the same pressure array with another fluid first
    m = np.asarray(fluid_mod.pseudopressure(p_in, mu, z))
    if not (np.array_equal(before[0], p_in) and p_in.dtype == before[0].dtype and np.array_equal(before[1], mu) and np.array_equal(before[2], z)):
        viol.append(V("standalone/inputs-unmodified", "fluids.pseudopressure modified its inputs", case=case))
    if m.shape != p.shape or m[0] != 0:
        viol.append(V("standalone/zero-at-reference", f"shape {m.shape}, first value {m[0]!r}", case=case))
    elif not np.all(np.diff(m) * np.sign(p[-1] - p[0]) > 0):
        viol.append(V("standalone/strictly-increasing", "stand-alone transform is not strictly increasing", case=case))
    else:
        err = float(np.max(np.abs(m - exact)) / exact_scale)
        if not err <= tol:
            viol.append(V("standalone/integral", f"stand-alone transform differs from the integral of 2p/(mu z) by "
                          f"{err:.3g} of its range (allowed {tol:.3g}) on the {case['grid']} grid", case=case,
                          observed=err, tol=tol))
    return {"violations": viol, "evals": 1, "outcome": "synthetic", "key": (case["grid"], case["integrand"])}


def evaluate(case):
    return (eval_comp if case["kind"] == "comp" else eval_synth)(case)


def cases(tier, seed):
    nodes = [10, 100, 1000, 5000, 9000, 12000, 13500] + ([50, 500, 2500, 7000] if tier == "thorough" else [])
    pmax = 14000.0
    out = [{"kind": "comp", **c, "nodes": nodes, "pmax": pmax} for c in compositions(tier, seed)]
    # maximum pressures that are not multiples of the 10-psi step (a table built "up to the initial pressure"): the table's
    # spacing is still 10 psi and its differences still agree with quadrature and with the stand-alone transform
    comps = compositions(tier, seed)
    out += [{"kind": "comp", **comps[1], "nodes": list(dict.fromkeys(nodes + [600, 1250])), "pmax": 1255.0},
            {"kind": "comp", **comps[0], "nodes": list(dict.fromkeys(nodes + [2500, 3000])), "pmax": 3002.5}]
    out += [{"kind": "synth", "grid": g, "integrand": i, "seed": seed}
            for g, i in itertools.product(["uniform", "geometric", "irregular", "uniform-desc", "irregular-desc",
                                           "uniform-int", "irregular-int", "irregular-int-desc", "window", "ramp", "window-desc"],
                                          ["linear", "zdip"])]
    return out


def run(ctx):
    cs = cases(ctx.tier, ctx.seed)
    res = ctx.pmap(evaluate, cs, chunksize=1)
    cov = {
        "evaluations": sum(r.get("evals", 0) for r in res),
        "distinct_nontrivial": len({tuple(r["key"]) for r in res if r.get("key")}),
        "rule": "one evaluation = one ordered pressure pair (three routes compared) or ordered triple "
                "(additivity) of one composition, or one synthetic table; non-trivial = distinct composition "
                "or (grid, integrand) family actually tabulated",
        "samples": samples_of(cs),
    }
    return ctx.finish("exploration", cov, [
        "QUADPACK's own error estimate (1e-8 relative) is far below the 1e-4 agreement tolerance",
        "table nodes are multiples of 10 psi; the pair lattice uses on-node pressures only",
    ])


def replay(case):
    case = {k: v for k, v in case.items() if k not in ("pair", "triple")}
    return evaluate(case)["violations"]
