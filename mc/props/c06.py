"""C06 - the gas Z-factor is the root of the Dranchuk-Abou-Kassem EOS on the whole validity
rectangle, continuous in pressure, -> 1 at low pressure, never a search bound or the starting
guess; Hall-Yarbrough terminates and agrees within a few percent."""

from __future__ import annotations

import itertools

import numpy as np

from ..common import CaseTimeout, V, alarm, samples_of, seed_offset
from ..refmodels import dak

ROOT_TOL = 1e-9  # on the residual of the EOS in units of Z (correct code: 1e-14; a root finder stopped at 1e-8 is flagged)
K1_SIG = "C06:K1-first-density-coefficient-A1*A2/Tr"
PCS = [(-102.2, 648.5), (-55.0, 620.0)]  # two pseudocritical points (F, psia)
TRS_Q = [1.05, 1.1, 1.2, 1.35, 1.5, 1.75, 2.0, 2.4, 3.0]
PRS_Q = [1e-12, 1e-10, 1e-8, 1e-6, 1e-4, 1e-3, 0.01, 0.1, 0.2, 0.5, 1, 1.5, 2, 3, 4, 5, 6.5, 8, 10, 12, 14, 16, 18, 20, 22, 25, 28, 30]


def state(tr, pr, pc):
    tpc, ppc = pc
    return tr * (tpc + 459.67) - 459.67, pr * ppc, tpc, ppc


def classify_point(z, tr, pr):
    """('ok'|'K1'|'other', residual_published, residual_K1)."""
    if not np.isfinite(z) or z <= 0:
        return "other", np.nan, np.nan
    r_pub = dak.residual(z, tr, pr, "published")
    r_k1 = dak.residual(z, tr, pr, "K1")
    if abs(r_pub) <= ROOT_TOL:
        return "ok", r_pub, r_k1
    if abs(r_k1) <= ROOT_TOL:
        return "K1", r_pub, r_k1
    return "other", r_pub, r_k1


def eval_point(case):
    from bluebonnet.fluids import gas  # noqa: PLC0415

    tr, pr = case["tr"], case["pr"]
    T, p, tpc, ppc = state(tr, pr, PCS[case["pc"]])
    try:
        with alarm(20):
            z = float(gas.z_factor_DAK(T, p, tpc, ppc))
    except CaseTimeout:
        return {"violations": [V("z/hang", "z_factor_DAK did not return within 20 s", case=case)]}
    cls, r_pub, r_k1 = classify_point(z, tr, pr)
    viol = []
    if cls != "ok":
        at_bound = min(abs(z - 5.0), abs(z - 0.05)) < 1e-9
        at_guess = abs(z - 1.0) < 1e-12
        what = ("a search bound" if at_bound else "the starting guess" if at_guess else "not a root")
        if cls == "K1":
            roots = dak.z_root(tr, pr, "published")
            ref = min(roots, key=lambda q: abs(q - z)) if roots else float("nan")
            viol.append(V("z/root", f"Z({tr=}, {pr=}) = {z:.9g} is the root of the EOS with first coefficient "
                          f"A1*A2/Tr, not of the published EOS (root {ref:.9g}, {100 * (z / ref - 1):+.2f}%)",
                          case=case, observed=z, expected=ref, tol=ROOT_TOL, signature=K1_SIG))
        else:
            viol.append(V("z/root", f"Z({tr=}, {pr=}) = {z:.9g} is {what}: residual of the published EOS "
                          f"{r_pub:.3g}, of the K1-substituted EOS {r_k1:.3g}", case=case, observed=z,
                          tol=ROOT_TOL))
    if pr <= 1e-2 and not abs(z - 1) <= 0.5 * pr:
        viol.append(V("z/low-pressure-limit", f"Z({tr=}, {pr=}) = {z!r}: |Z-1| > 0.5 p_r", case=case, observed=z))
    return {"violations": viol, "outcome": cls, "z": z}


def eval_sweep(case):
    """Isotherm sweep: continuity in pressure against the reference roots of either EOS variant."""
    from bluebonnet.fluids import gas  # noqa: PLC0415

    tr = case["tr"]
    prs = np.linspace(case["lo"], case["hi"], case["n"])
    zs, ref_p, ref_k = [], [], []
    for pr in prs:
        T, p, tpc, ppc = state(tr, pr, PCS[case["pc"]])
        zs.append(float(gas.z_factor_DAK(T, p, tpc, ppc)))
    # reference roots tracked by continuation (closest to the previous one)
    for variant, store in (("published", ref_p), ("K1", ref_k)):
        prev = 1.0
        for pr in prs:
            roots = dak.z_root(tr, pr, variant, scan=401)
            prev = min(roots, key=lambda q: abs(q - prev)) if roots else prev
            store.append(prev)
    zs, ref_p, ref_k = map(np.array, (zs, ref_p, ref_k))
    dz = np.abs(np.diff(zs))
    allow = 2 * np.maximum(np.abs(np.diff(ref_p)), np.abs(np.diff(ref_k))) + 1e-6
    viol = []
    bad = np.flatnonzero(dz > allow)
    if bad.size:
        k = int(bad[0])
        viol.append(V("z/continuity", f"along T_r={tr} Z jumps from {zs[k]:.6g} at p_r={prs[k]:.5g} to "
                      f"{zs[k + 1]:.6g} at p_r={prs[k + 1]:.5g} (reference changes by {allow[k] / 2:.3g}); "
                      f"{bad.size} jumps on the sweep", case=case, observed=float(dz[k]), tol=float(allow[k])))
    return {"violations": viol, "outcome": "sweep", "evals": len(prs)}


def eval_hy(case):
    from bluebonnet.fluids import gas  # noqa: PLC0415

    tr, pr = case["tr"], case["pr"]
    if case.get("f32"):
        # the reduced state arrives as single-precision scalars (read off a float32 table): the iteration then runs in
        # float32 - it must still terminate (a stopping test below single-precision resolution never does)
        tr, pr = np.float32(tr), np.float32(pr)
    try:
        with alarm(2.0):
            z = float(gas.z_factor_hallyarbrough(pr, tr))
    except CaseTimeout:
        return {"violations": [V("hy/terminates", f"Hall-Yarbrough does not terminate at {tr=}, {pr=}", case=case)],
                "outcome": "hy-hang"}
    except Exception as e:  # noqa: BLE001
        return {"violations": [V("hy/terminates", f"Hall-Yarbrough raises {type(e).__name__} at {tr=}, {pr=}",
                                 case=case)], "outcome": "hy-raise"}
    tr, pr = float(tr), float(pr)  # (the single-precision values, as doubles, for the comparison with DAK)
    if not np.isfinite(z):
        return {"violations": [V("hy/finite", f"Hall-Yarbrough returns {z!r} at {tr=}, {pr=}", case=case,
                                 observed=z)], "outcome": "hy-nan"}
    T, p, tpc, ppc = state(tr, pr, PCS[0])
    zl = float(gas.z_factor_DAK(T, p, tpc, ppc))
    if abs(z / zl - 1) <= 0.05:
        return {"violations": [], "outcome": "hy-agrees"}
    roots = dak.z_root(tr, pr, "published", scan=401)
    zp = min(roots, key=lambda q: abs(q - z)) if roots else float("nan")
    sig = None
    if abs(z / zp - 1) <= 0.05 and classify_point(zl, tr, pr)[0] == "K1":
        sig = K1_SIG  # HY agrees with the published root; the library's DAK value is the K1 root
    return {"violations": [V("hy/agreement", f"Hall-Yarbrough {z:.6g} vs library DAK {zl:.6g} at {tr=}, {pr=} "
                             f"({100 * (z / zl - 1):+.1f}%; published DAK root {zp:.6g})", case=case, observed=z,
                             expected=zl, tol=0.05, signature=sig)], "outcome": "hy-disagrees"}


def eval_history(case):
    """Call sequences in ONE process that share some arguments and differ in others (same reservoir
    temperature with two pseudocritical points, same pseudocritical point at two temperatures ...):
    every value must still be a root for its own reduced state - a result memoised under too coarse a
    key is served to the wrong caller only after such a history."""
    from bluebonnet.fluids import gas  # noqa: PLC0415

    viol = []
    outcomes = []
    for (T, p, tpc, ppc) in case["calls"]:
        z = float(gas.z_factor_DAK(T, p, tpc, ppc))
        tr, pr = (T + 459.67) / (tpc + 459.67), p / ppc
        cls, r_pub, r_k1 = classify_point(z, tr, pr)
        outcomes.append(cls)
        if cls == "K1":
            viol.append(V("z/root", f"(history) Z at T_r={tr:.4f}, p_r={pr:.4f} = {z:.9g} is the root of the EOS with "
                          "first coefficient A1*A2/Tr, not of the published EOS", case=case, observed=z,
                          signature=K1_SIG))
        elif cls != "ok":
            viol.append(V("z/root-after-history", f"after the call history {case['calls']} the value "
                          f"Z(T={T}, p={p}, T_pc={tpc}, p_pc={ppc}) = {z:.9g} is not a root for its own reduced "
                          f"state (T_r={tr:.4f}, p_r={pr:.4f}): residuals {r_pub:.3g} / {r_k1:.3g}", case=case,
                          observed=z))
    return {"violations": viol, "outcome": "history", "evals": len(case["calls"])}


def eval_table(case):
    """Rows of build_pvt_gas: the tabulated z-factor must be the root for the row's own reduced state
    (the table's temperature is deliberately not a whole number)."""
    from bluebonnet.fluids import build_pvt_gas, gas  # noqa: PLC0415

    g, T = case["gravity"], case["T"]
    cont, dry = case.get("cont", [0.0, 0.0, 0.0]), case.get("dry", "dry gas")
    tab = build_pvt_gas({"N2": cont[0], "H2S": cont[1], "CO2": cont[2], "Gas Specific Gravity": g,
                         "Reservoir Temperature (deg F)": T}, dry, maximum_pressure=case["pmax"])
    tpc, ppc = gas.pseudocritical_point_Sutton(g, gas.make_nonhydrocarbon_properties(*cont), dry)
    tr = (T + 459.67) / (tpc + 459.67)
    viol, kinds = [], {}
    idx = sorted(set(range(0, len(tab), case["stride"])) | set(range(max(0, len(tab) - 12), len(tab))) | set(range(min(12, len(tab)))))
    for p, z in zip(np.asarray(tab["pressure"], dtype=float)[idx], np.asarray(tab["z-factor"], dtype=float)[idx]):
        cls, r_pub, r_k1 = classify_point(float(z), tr, p / ppc)
        kinds[cls] = kinds.get(cls, 0) + 1
        if cls == "K1":
            viol.append(V("z/root", f"(table row p={p}) Z = {z:.9g} is the root of the EOS with first coefficient A1*A2/Tr",
                          case=dict(case, p=float(p)), observed=float(z), signature=K1_SIG))
        elif cls != "ok":
            viol.append(V("z/table-row-not-a-root", f"build_pvt_gas(gravity={g}, T={T}) row p={p}: z-factor {z:.9g} is not a "
                          f"root for T_r={tr:.5f}, p_r={p / ppc:.5f} (residuals {r_pub:.3g} / {r_k1:.3g})",
                          case=dict(case, p=float(p)), observed=float(z)))
            break
    return {"violations": viol, "outcome": "table", "evals": int(np.ceil(len(tab) / case["stride"]))}


def evaluate(case):
    if case["kind"] == "table":
        return eval_table(case)
    return {"point": eval_point, "sweep": eval_sweep, "hy": eval_hy, "history": eval_history}[case["kind"]](case)


def cases(tier, seed):
    thorough = tier == "thorough"
    off = seed_offset(seed)
    if thorough:
        trs = list(np.round(np.linspace(1.05, 3.0, 40), 4))
        prs = [1e-12, 1e-11, 1e-10, 1e-9, 1e-8, 1e-7, 1e-6, 1e-5] + list(np.round(np.geomspace(1e-4, 30, 120), 6))
    else:
        trs, prs = list(TRS_Q), list(PRS_Q)
    if seed:
        trs += [round(1.05 + 1.95 * ((off + k * 0.37) % 1), 4) for k in range(3)]
        prs += [round(30 * ((off + k * 0.61) % 1) + 1e-3, 4) for k in range(4)]
    out = [{"kind": "point", "tr": float(tr), "pr": float(pr), "pc": pc}
           for tr, pr, pc in itertools.product(trs, prs, (0, 1))]
    # default table range of build_pvt_gas for the Sutton points of the gravity x temperature lattice
    from bluebonnet.fluids import gas  # noqa: PLC0415

    nh = gas.make_nonhydrocarbon_properties(0.0, 0.0, 0.0)
    step = 10.0 if thorough else 250.0
    for g, T in itertools.product([0.55, 0.7, 0.9, 1.2], [80.0, 150.0, 250.0, 400.0]):
        tpc, ppc = gas.pseudocritical_point_Sutton(g, nh, "dry gas")
        tr = (T + 459.67) / (tpc + 459.67)
        if not 1.05 <= tr <= 3.0:
            continue
        for p in np.arange(10.0, 14000.0, step):
            if p / ppc <= 30:
                out.append({"kind": "point", "tr": float(tr), "pr": float(p / ppc), "pc": 0,
                            "table": [g, T, float(p)]})
    # histories: all ordered pairs / one long interleaving of calls sharing T, p, T_pc or p_pc
    base = [(T, p, tpc, ppc) for T in (150.0, 300.0) for p in (800.0, 4000.0)
            for (tpc, ppc) in ((-102.2, 648.5), (-55.0, 620.0), (-102.2, 700.0))]
    for a, b in itertools.permutations(base, 2):
        if sum(x == y for x, y in zip(a, b)) >= 2:
            out.append({"kind": "history", "calls": [list(a), list(b)]})
    out.append({"kind": "history", "calls": [list(c) for c in base + base[::-1]]})
    for g, T in itertools.product([0.6, 0.9], [150.5, 287.25]):
        out.append({"kind": "table", "gravity": g, "T": T, "pmax": 14000, "stride": 1 if thorough else 20})
    # a wet and a contaminated composition: the row's reduced state comes from ITS pseudocritical point
    out.append({"kind": "table", "gravity": 0.75, "T": 231.5, "pmax": 14000, "stride": 1 if thorough else 20, "dry": "wet gas"})
    out.append({"kind": "table", "gravity": 0.7, "T": 180.25, "pmax": 14000, "stride": 1 if thorough else 20,
                "cont": [0.03, 0.012, 0.018], "dry": "wet gas"})
    out.append({"kind": "table", "gravity": 0.8, "T": 305.75, "pmax": 14000, "stride": 1 if thorough else 20,
                "cont": [0.0, 0.08, 0.05]})
    for tr in ((1.05, 1.1, 1.2, 1.35, 1.5, 1.75, 2.0, 2.4, 3.0) if thorough else (1.05, 1.5, 3.0)):
        out.append({"kind": "sweep", "tr": tr, "lo": 0.05, "hi": 30.0, "n": 600 if thorough else 300, "pc": 0})
    hts = np.arange(1.2, 3.0001, 0.01 if thorough else 0.05)
    hps = np.concatenate([[1e-8, 1e-6, 1e-5, 3e-5, 1e-4, 1e-3, 5e-3, 0.01, 0.02, 0.05, 0.1, 0.2, 0.35],  # the low end of (0, 24]
                          np.arange(0.1 if thorough else 0.5, 24.0001, 0.1 if thorough else 0.5)])
    out += [{"kind": "hy", "tr": float(round(t, 4)), "pr": float(f"{p:.6g}")} for t, p in itertools.product(hts, hps)]
    # a second, irrational-offset (Kronecker) lattice, enumerated completely: a stalled iteration hits ~1e-4 of all
    # states and none of the round-number ones above
    n_k = 200000 if thorough else 40000
    k = np.arange(1, n_k + 1) + 1000 * seed
    t_k = 1.2 + 1.8 * ((k * 0.6180339887498949) % 1.0)
    p_k = 24.0 * ((k * 0.41421356237309503) % 1.0) ** 1.5 + 1e-3
    out += [{"kind": "hy", "tr": float(round(t, 7)), "pr": float(round(p, 7))} for t, p in zip(t_k, p_k)]
    out += [{"kind": "hy", "tr": float(t), "pr": float(p), "f32": True}
            for t, p in itertools.product((1.2, 1.35, 1.5, 2.0, 2.4, 3.0), (1e-3, 0.05, 0.5, 1.0, 2.0, 4.0, 8.0, 12.0, 16.0, 20.0, 24.0))]
    return out


def run(ctx):
    cs = cases(ctx.tier, ctx.seed)
    res = ctx.pmap(evaluate, cs)
    nontriv = len({round(r["z"], 9) for r in res if "z" in r and abs(r["z"] - 1) > 1e-3})
    cov = {
        "evaluations": sum(r.get("evals", 1) for r in res),
        "distinct_nontrivial": nontriv,
        "rule": "point lattice T_r x p_r x pseudocritical point + table-range rows + isotherm sweeps + "
                "Hall-Yarbrough lattice, all enumerated; non-trivial = distinct returned Z with |Z-1| > 1e-3",
        "samples": samples_of(cs),
        "by_kind": {k: sum(1 for c in cs if c["kind"] == k) for k in ("point", "sweep", "hy", "history", "table")},
    }
    return ctx.finish("exploration", cov, [
        "published DAK constants as transcribed in refmodels/dak.py; root tolerance 1e-6",
        "a violation is attributed to known finding K1 only if the returned Z is a root (1e-6) of the EOS "
        "with the single substitution A1*A2/Tr; anything else is reported",
    ])


def replay(case):
    case = {k: v for k, v in case.items() if k != "p" or case.get("kind") != "table"}
    return evaluate(case)["violations"]
