"""C18 - the pressure-history fit uses the library's own forward model, honours its limits,
filters rows as documented and leaves pressures unchanged under a one-sample window."""

from __future__ import annotations

import itertools
import warnings

import numpy as np

from .. import tables
from ..common import V, samples_of, seed_offset


def pvt_frame():
    return tables.hay(frame=True, pmax=14_000.0)


def pvt_frame_b():
    """A second fluid on the same pressure rows: viscosity rising faster with pressure (another diffusivity curve)."""
    df = pvt_frame()
    df["viscosity"] = df["viscosity"] * (1.0 + df["pressure"] / 7000.0)
    return df


def schedule(kind, n, p_i):
    k = np.arange(n)
    if kind == "constant":
        return np.full(n, 0.35 * p_i)
    if kind == "stepwise":
        return np.where(k < n // 3, 0.7 * p_i, np.where(k < 2 * n // 3, 0.45 * p_i, 0.2 * p_i)).astype(float)
    if kind == "buildup":  # drawdown, then a late shut-in build-up: the highest pressure is NOT the first sample
        return np.where(k < 2 * n // 3, 0.35 * p_i, 0.8 * p_i).astype(float)
    return np.linspace(0.9 * p_i, 0.15 * p_i, n)  # ramp


def forward(pvt, days, tau, p_i, sched, nx):
    """The harness's own composition of the public API (node count as observed in the objective)."""
    from bluebonnet.flow import FlowProperties, SinglePhaseReservoir  # noqa: PLC0415

    fl = FlowProperties(pvt, p_i)
    res = SinglePhaseReservoir(nx, p_i, p_i, fl)
    res.simulate(days / tau, pressure_fracface=sched)
    return np.asarray(res.recovery_factor(), dtype=float)


class Recorder:
    """Harness-side observation of what the fit hands to its minimiser and which node count the objective uses.
    Patched at the class level (lmfit's Minimizer.__init__ and SinglePhaseReservoir.__init__ themselves), so it does
    not depend on the names through which forecast_pressure reaches them (Minimizer, lmfit.minimize, an alias ...)."""

    def __init__(self):
        self.nx, self.mini = [], []

    def __enter__(self):
        import lmfit.minimizer as lm  # noqa: PLC0415

        from bluebonnet.flow import SinglePhaseReservoir  # noqa: PLC0415

        rec = self
        self.saved = (lm.Minimizer.__init__, SinglePhaseReservoir.__init__, lm, SinglePhaseReservoir)
        m_init, r_init = lm.Minimizer.__init__, SinglePhaseReservoir.__init__

        def mini_init(this, userfcn, params, fcn_args=None, fcn_kws=None, *a, **k):
            rec.mini.append({"params": {n: (p.value, p.min, p.max) for n, p in params.items()},
                             "fcn": userfcn, "fcn_args": fcn_args, "fcn_kws": fcn_kws})
            return m_init(this, userfcn, params, fcn_args, fcn_kws, *a, **k)

        def res_init(this, nx, *a, **k):
            rec.nx.append(nx)
            return r_init(this, nx, *a, **k)

        lm.Minimizer.__init__ = mini_init
        SinglePhaseReservoir.__init__ = res_init
        return self

    def __exit__(self, *exc):
        m_init, r_init, lm, cls = self.saved
        lm.Minimizer.__init__ = m_init
        cls.__init__ = r_init
        return False


def unpack_args(cap):
    """(days, cumulative production, frac-face pressures) among whatever was handed to the objective, positionally
    or by keyword: the three equally long 1-D arrays, in that order (the table is the DataFrame)."""
    import pandas as pd  # noqa: PLC0415

    vals = list(cap["fcn_args"] or ()) + list((cap["fcn_kws"] or {}).values())
    arrs = [np.asarray(v) for v in vals if not isinstance(v, (pd.DataFrame, dict)) and np.ndim(v) == 1]
    if len(arrs) != 3 or len({len(a) for a in arrs}) != 1:
        raise ValueError(f"cannot identify days / cumulative / pressure among the objective's arguments ({len(arrs)} arrays)")
    return arrs


def eval_objective(case):
    from lmfit import Parameters  # noqa: PLC0415

    from bluebonnet.forecast import forecast_pressure as fpm  # noqa: PLC0415

    pvt = pvt_frame()
    n, tau, M, p_i = case["n"], case["tau"], case["M"], case["p_i"]
    days = np.arange(n, dtype=float)
    sched = schedule(case["sched"], n, p_i)
    viol = []
    with Recorder() as rec, warnings.catch_warnings():
        warnings.simplefilter("ignore")
        prm = Parameters()
        prm.add("tau", value=tau)
        prm.add("M", value=M)
        prm.add("p_initial", value=p_i)
        zero = np.zeros(n)
        base = np.asarray(fpm._obj_function(prm, days, zero, pvt, sched), dtype=float)  # = M * rf
        # history: same parameters, same table object, same days - another pressure history
        sched_b = schedule({"constant": "ramp", "stepwise": "constant", "ramp": "stepwise", "buildup": "ramp"}[case["sched"]], n, p_i)
        other = np.asarray(fpm._obj_function(prm, days, zero, pvt, sched_b), dtype=float)
        # ... and the same parameters, days and pressure history with ANOTHER fluid table
        pvt_b = pvt_frame_b()
        fluid_b = np.asarray(fpm._obj_function(prm, days, zero, pvt_b, sched), dtype=float)
    nx = rec.nx[-1] if rec.nx else 80
    rf_fb = forward(pvt_b, days, tau, p_i, sched, nx)
    if not np.all(np.abs(fluid_b - M * rf_fb) <= 1e-8 * M):
        viol.append(V("objective/forward-model-other-table", "an objective call with the same tau, M, p_initial, days and pressure "
                      "history but another fluid table does not follow that table (max diff "
                      f"{np.max(np.abs(fluid_b - M * rf_fb)):.3g}; the two tables differ by {np.max(np.abs(M * rf_fb - base)):.3g})",
                      case=case))
    rf_b = forward(pvt, days, tau, p_i, sched_b, nx)
    if not np.all(np.abs(other - M * rf_b) <= 1e-8 * M):
        viol.append(V("objective/forward-model-after-history", "a second objective call with the same tau, M, p_initial, "
                      "table object and days but another frac-face history does not follow that history (max diff "
                      f"{np.max(np.abs(other - M * rf_b)):.3g})", case=case))
    rf = forward(pvt, days, tau, p_i, sched, nx)
    if not np.all(np.abs(base - M * rf) <= 1e-8 * M):
        k = int(np.argmax(np.abs(base - M * rf)))
        viol.append(V("objective/forward-model", f"objective with zero production at day {k} = {base[k]!r}; M x recovery "
                      f"factor of the library's own variable-pressure simulation ({nx} nodes) = {M * rf[k]!r}", case=case,
                      observed=float(base[k]), expected=float(M * rf[k]), tol=1e-8 * M))
    prod = M * rf
    with warnings.catch_warnings():
        warnings.simplefilter("ignore")
        at_truth = np.asarray(fpm._obj_function(prm, days, prod, pvt, sched), dtype=float)
        prm2 = Parameters()
        prm2.add("tau", value=tau * case["dev"][0])
        prm2.add("M", value=M * case["dev"][1])
        prm2.add("p_initial", value=min(p_i * case["dev"][2], 13000.0))
        off = np.asarray(fpm._obj_function(prm2, days, prod, pvt, sched), dtype=float)
    if not np.max(np.abs(at_truth)) <= 1e-8 * M:
        viol.append(V("objective/zero-at-generating-parameters", f"max |objective| at the generating parameters = "
                      f"{np.max(np.abs(at_truth)):.3g} (M={M})", case=case, observed=float(np.max(np.abs(at_truth)))))
    p2 = min(p_i * case["dev"][2], 13000.0)
    rf2 = forward(pvt, days, tau * case["dev"][0], p2, np.minimum(sched, p2), nx) if np.any(sched > p2) else \
        forward(pvt, days, tau * case["dev"][0], p2, sched, nx)
    want = M * case["dev"][1] * rf2 - prod
    if not np.any(sched > p2) and not np.all(np.abs(off - want) <= 1e-8 * M * max(1, case["dev"][1])):
        viol.append(V("objective/at-other-parameters", "objective away from the generating parameters differs from "
                      f"M x rf - production by {np.max(np.abs(off - want)):.3g}", case=case))
    if prod.shape != at_truth.shape:
        viol.append(V("objective/shape", f"{at_truth.shape} vs {prod.shape}", case=case))
    return {"violations": viol, "outcome": "objective", "key": ("o", n, tau, M, p_i, case["sched"]), "nx": nx}


def eval_fit(case):
    import pandas as pd  # noqa: PLC0415

    from bluebonnet.forecast import fit_production_pressure  # noqa: PLC0415

    pvt = pvt_frame()
    n, tau, M, p_i = case["n"], case["tau"], case["M"], case["p_i"]
    days = np.arange(n, dtype=float)
    sched = schedule(case["sched"], n, p_i)
    rf = forward(pvt, days + 1.0, tau, p_i, sched, 80)  # production from day 1 on: every clean day has Gas > 0
    cum = M * rf
    gas = np.diff(np.concatenate([[0.0], cum]))
    press = sched.copy()
    dirty = case["dirty"]
    if dirty:
        gas[[5, 11, n // 2]] = 0.0          # zero-rate days
        press[[7, n // 2 + 3]] = np.nan     # missing pressures
        gas[3] = -1.0                        # a negative correction counts as 'no production'
        gas[9] = np.nan                      # a missing rate as well
    other_col = np.arange(n, dtype=float)
    if dirty:  # gaps in a column the fit does not use (oil, water, choke ...) on days that DO have production and pressure
        other_col[[2, n // 3, n - 4]] = np.nan
    prod = pd.DataFrame({"Days": days * 1.0, "Gas": gas, "Pressure": press, "Other": other_col})  # day 0 produces
    if case.get("cols") == "permuted":       # columns are found by NAME: another order, an extra numeric column first
        prod = prod[["Other", "Pressure", "Gas", "Days"]]
    if case.get("index") == "offset":        # a table cut out of a longer history: labels 100, 101, ...
        prod.index = np.arange(n) + 100
    elif case.get("index") == "dup":         # two files concatenated: labels 0..k-1 twice
        prod.index = np.concatenate([np.arange(n // 2), np.arange(n - n // 2)])
    snap = prod.copy(deep=True)
    viol = []
    with Recorder() as rec, warnings.catch_warnings():
        warnings.simplefilter("ignore")
        try:
            if case["window"] is None:  # history: another well was fitted in this process just before
                other = pd.DataFrame({"Days": np.arange(25.0), "Gas": 400.0 + 3.0 * np.arange(25.0),
                                      "Pressure": np.linspace(0.6, 0.3, 25) * 11000.0})
                fit_production_pressure(other, pvt, 11500.0, pressure_imax=11900.0, inplace_max=5e7, n_iter=1)
            guess = {"inside": p_i * 0.95, "below": 0.5 * np.nanmax(press), "above": 12500.0}[case.get("guess", "inside")]
            user = None
            if case.get("params"):  # limits declared by the caller through params=; the data's optimum lies outside
                from lmfit import Parameters  # noqa: PLC0415

                user = Parameters()
                user.add("tau", value=2.5 * tau, min=2.0 * tau, max=3.0 * tau)
                user.add("M", value=0.5 * M, min=0.4 * M, max=0.6 * M)
                user.add("p_initial", value=p_i + 350.0, min=p_i + 300.0, max=p_i + 400.0)
            result = fit_production_pressure(prod, pvt, guess, filter_window_size=case["window"],
                                             pressure_imax=12000.0, inplace_max=1e6,
                                             filter_zero_prod_days=case["filter"], n_iter=case["n_iter"], params=user)
        except Exception as e:  # noqa: BLE001
            return {"violations": [V("fit/raises", f"{type(e).__name__}: {e}", case=case)], "outcome": "raise"}
    if not prod.equals(snap):
        viol.append(V("fit/caller-data-modified", "fit_production_pressure modified the caller's production table", case=case))
    if not rec.mini:
        return {"violations": viol + [V("fit/minimizer-not-observed", "no Minimizer was constructed", case=case)]}
    cap = rec.mini[-1]
    keep = (gas > 0) & ~np.isnan(press) if case["filter"] else np.ones(n, dtype=bool)
    want_p = press[keep]
    if case["window"] is not None and case["window"] > 1:
        from scipy.ndimage import uniform_filter1d  # noqa: PLC0415

        want_p = uniform_filter1d(want_p, size=case["window"])
    try:
        t_used, cum_used, p_used = unpack_args(cap)
    except ValueError:
        # the data reach the objective some other way (a closure, say): the row / pressure clauses are then decided
        # through the residual alone - it must be M x forward(expected days, expected pressures) - expected cumulative
        t_used, cum_used, p_used = np.arange(int(keep.sum())), np.cumsum(gas[keep]), want_p
    if len(t_used) != keep.sum() or not np.array_equal(np.asarray(t_used, dtype=float), np.arange(keep.sum(), dtype=float)):
        viol.append(V("rows/reindexed-days", f"{len(t_used)} days handed to the objective ({list(np.asarray(t_used)[:4])}...), "
                      f"expected 0..{int(keep.sum()) - 1} after excluding rows without production or pressure", case=case))
    elif not np.allclose(cum_used, np.cumsum(gas[keep]), rtol=1e-13, atol=0):
        viol.append(V("rows/cumulative", "cumulative production handed to the objective is not the running sum of the "
                      "kept rows", case=case))
    elif case["window"] in (None, 1):
        if not np.array_equal(p_used, want_p, equal_nan=True):
            viol.append(V("window/one-sample-unchanged", f"window {case['window']}: pressures handed to the objective "
                          "differ from the data", case=case))
    elif not np.allclose(p_used, want_p, rtol=1e-12, equal_nan=True):
        viol.append(V("window/boxcar", f"window {case['window']}: pressures are not the boxcar average", case=case))
    # limits: captured from the Parameters handed to the minimiser
    lim = cap["params"]
    pmax_sched = np.nanmax(p_used) if len(p_used) else np.nan
    if case.get("params"):
        declared = {"tau": (2.0 * tau, 3.0 * tau), "M": (0.4 * M, 0.6 * M), "p_initial": (p_i + 300.0, p_i + 400.0)}
        for name, (lo, hi) in declared.items():
            v = float(result.params[name].value)
            if not lo <= v <= hi:
                viol.append(V(f"limits/declared-by-caller/{name}", f"fitted {name} = {v!r} outside the limits [{lo}, {hi}] "
                              "declared through params=", case=case, observed=v, expected=[lo, hi]))
        return {"violations": viol[:3], "outcome": "fit:params", "key": ("fp", n, tau, M, p_i, case["sched"], case["n_iter"])}
    if "p_initial" in lim:
        _, lo, hi = lim["p_initial"]
        if not (lo >= pmax_sched - 1e-9 and hi <= 12000.0 + 1e-9):
            viol.append(V("limits/p_initial", f"p_initial limits [{lo}, {hi}]; highest frac-face pressure used "
                          f"{pmax_sched}, stated maximum 12000", case=case))
    if "M" in lim:
        _, lo, hi = lim["M"]
        c_lo, c_hi = sorted((float(cum_used[-2]), float(cum_used[-1])))  # (a build-up can take production back)
        if not (c_lo * (1 - 1e-12) <= lo <= c_hi * (1 + 1e-12) and hi == 1e6):
            viol.append(V("limits/M", f"M limits [{lo}, {hi}]: the lower one is not the production already recorded "
                          f"({cum_used[-2]} .. {cum_used[-1]}) or the upper one is not inplace_max=1e6", case=case))
    for name in ("tau", "M", "p_initial"):
        v = float(result.params[name].value)
        _, lo, hi = lim[name]
        if not lo <= v <= hi:
            viol.append(V(f"limits/{name}", f"fitted {name} = {v!r} outside its declared limits [{lo}, {hi}]", case=case,
                          observed=v, expected=[lo, hi]))
    p_fit = float(result.params["p_initial"].value)
    if not (p_fit >= pmax_sched - 1e-9 and p_fit <= 12000.0 + 1e-9):
        viol.append(V("limits/p_initial-physical", f"fitted p_initial {p_fit!r}; highest frac-face pressure {pmax_sched}, "
                      "maximum 12000", case=case))
    res = np.asarray(result.residual, dtype=float)
    if res.shape != (int(keep.sum()),) or not np.all(np.isfinite(res)):
        viol.append(V("fit/residual", f"residual shape {res.shape}, finite {bool(np.all(np.isfinite(res)))}", case=case))
    elif not viol:
        # what is minimised IS the stated objective: the residual reported at the fitted parameters equals
        # M x (library recovery factor for the fitted tau / p_initial and the pressures used) - cumulative production
        nx = rec.nx[-1] if rec.nx else 80
        tf, Mf = float(result.params["tau"].value), float(result.params["M"].value)
        want_res = Mf * forward(pvt, np.asarray(t_used, dtype=float), tf, p_fit, np.asarray(p_used, dtype=float), nx) - cum_used
        if not np.all(np.abs(res - want_res) <= 1e-8 * max(Mf, float(np.abs(cum_used).max()))):
            viol.append(V("fit/objective-minimised", "the residual the minimiser reports at the fitted parameters is not M x "
                          f"recovery factor - cumulative production (max diff {np.max(np.abs(res - want_res)):.3g})", case=case))
    return {"violations": viol[:3], "outcome": f"fit:{'f' if case['filter'] else 'n'}:{case['window']}",
            "key": ("f", n, tau, M, p_i, case["sched"], case["filter"], case["window"], case["n_iter"], dirty, case.get("guess"),
                                                        case.get("index"), case.get("cols"))}


def evaluate(case):
    return (eval_objective if case["kind"] == "objective" else eval_fit)(case)


def cases(tier, seed):
    thorough = tier == "thorough"
    taus, Ms, pis = [60.0, 180.0], [1e3, 5e4], [6000.0, 9000.0]
    # last one: an initial pressure a few parts per million away from the previous call's (a simplex that has
    # contracted, a refit with a refined pressure) - must be evaluated at ITS pressure, not the neighbour's
    devs = [(1.0, 1.0, 1.0), (1.3, 0.8, 1.05), (0.6, 2.0, 1.0), (1.0, 1.0, 1.000004), (1.000004, 1.0, 1.0), (1.0, 1.000004, 1.0)]
    if seed:
        o = seed_offset(seed)
        taus.append(round(40 + 200 * o, 1))
        devs.append((round(0.5 + o, 3), round(0.5 + 2 * o, 3), 1.0))
    out = []
    for tau, M, p_i, s, n, dev in itertools.product(taus, Ms, pis, ["constant", "stepwise", "ramp"], [40, 60], devs):
        out.append({"kind": "objective", "tau": tau, "M": M, "p_i": p_i, "sched": s, "n": n, "dev": list(dev)})
    iters = [1, 4, 10] if thorough else [1, 4]
    for tau, M, p_i, s, n, flt, w, it in itertools.product(taus, Ms, pis, ["constant", "stepwise", "ramp"], [40, 60],
                                                           [True, False], [None, 1, 3], iters):
        if not thorough and (M == 5e4 and p_i == 9000.0 or n == 60 and s == "constant"):
            continue
        out.append({"kind": "fit", "tau": tau, "M": M, "p_i": p_i, "sched": s, "n": n, "filter": flt, "window": w,
                    "n_iter": it, "dirty": bool(flt)})  # filter off is only defined on clean data
        if w is None and it == iters[-1]:  # a starting guess outside the admissible range must not widen it
            out += [dict(out[-1], guess="below"), dict(out[-1], guess="above")]
            if flt:
                out.append(dict(out[-1], guess="inside", params=True, n_iter=12))
    # a late build-up (the highest frac-face pressure is not the first sample), with and without smoothing; production
    # tables whose index is not 0..n-1 (a slice of a longer history, two files concatenated)
    for tau, flt, w, idx in itertools.product(taus[:2], [True, False], [None, 3], [None, "offset", "dup"]):
        out.append({"kind": "fit", "tau": tau, "M": 1e3, "p_i": 6000.0, "sched": "buildup", "n": 40, "filter": flt, "window": w,
                    "n_iter": 4, "dirty": bool(flt), "index": idx, "guess": "below" if idx is None else "inside"})
        if idx != "dup":
            out.append(dict(out[-1], sched="ramp", cols="permuted"))
    out += [{"kind": "objective", "tau": 60.0, "M": 1e3, "p_i": 6000.0, "sched": "buildup", "n": 40, "dev": list(d)} for d in devs[:3]]
    # long histories (four years of daily data): anything that thins or batches the simulated days
    out += [{"kind": "objective", "tau": 180.0, "M": 5e4, "p_i": 9000.0, "sched": sc, "n": 1500, "dev": [1.0, 1.0, 1.0]}
            for sc in ("ramp", "stepwise")]
    return out


def run(ctx):
    cs = cases(ctx.tier, ctx.seed)
    res = ctx.pmap(evaluate, cs)
    cov = {
        "evaluations": len(cs),
        "distinct_nontrivial": len({tuple(map(str, r["key"])) for r in res if r.get("key")}),
        "rule": "objective: generating (tau, M, p_i) x schedule x length x evaluation point (at / away from the "
                "generating parameters); fit: generating parameters x schedule x length x filter x window x "
                "iteration budget with zero-rate days, a negative rate and NaN pressures at fixed rows; "
                "non-trivial = distinct case evaluated",
        "samples": samples_of(cs),
        "node_counts_observed_in_objective": sorted({r["nx"] for r in res if "nx" in r}),
    }
    return ctx.finish("exploration", cov, [
        "the objective's node count is observed through a harness-side subclass, not assumed",
        "limits are read from the Parameters object handed to the minimiser (harness-side subclass of Minimizer)",
        "filtering off is only exercised on clean data (NaN pressures cannot be simulated)",
    ])


def replay(case):
    return evaluate(case)["violations"]
