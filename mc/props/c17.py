"""C17 - time-origin shift invariance (pairs of runs in lock step), equivalent schedule forms,
rejected inputs and the life-cycle automaton of recovery / interpolator calls."""

from __future__ import annotations

import itertools

import numpy as np

from .. import history, sim, tables
from ..common import V, samples_of, seed_offset

EPS = np.finfo(float).eps
# first-order sensitivity of one step is delta*drawdown; the lagged nonlinear diffusivity feeds the
# perturbation back (measured worst 1.24x on the 100x kinked family, nx=100); a loosely converged
# Krylov solve sits at 1e6x
AMPLIFY = 200.0
SHIFTS = [-5.0, 1e-3, 1.0, 123.456, 1e4]
# epoch-like origins (seconds since 1970, 2**31): only meaningful where the step is >= ~0.1, i.e. on the coarse grids
BIG_SHIFTS = [1.7e9, float(2**31)]
GRIDS = [("uniform", 20, 2.0), ("quadratic", 25, 3.0), ("geometric", 25, 0), ("irregular", 20, 3.0),
         ("integer", 12, 0), ("drift", 101, 2.0)]
# non-integer pressures on purpose: an integer-dtype time grid must not leak its dtype into them
CONFIGS = [("ideal", None, 1000.37, 8000.0), ("single", "T_ship_gas", 100.37, 8000.0),
           ("single", "T_ship_gas", 7900.37, 8000.0), ("single", "A_kink", 4000.37, 8000.0),
           ("single", "S_zdip", 7000.37, 8000.0)]


def cases(tier, seed):
    nxs = [5, 30, 100, 400] if tier == "thorough" else [5, 30]
    shifts = list(SHIFTS)
    if seed:
        shifts.append(round(1000 * seed_offset(seed), 6) + 0.5)
    out = []
    for (cls, tab, p_f, p_i), nx, (g, n, T), s in itertools.product(CONFIGS, nxs, GRIDS, shifts):
        out.append({"part": "shift", "cls": cls, "table": tab, "p_f": p_f, "p_i": p_i, "nx": nx,
                    "grid": g, "n": n, "T": T, "shift": s, "seed": seed})
    for (cls, tab, p_f, p_i), nx, (g, n, T), s in itertools.product(CONFIGS, nxs[:2], [("integer", 12, 0), ("uniform", 20, 2.0)], BIG_SHIFTS):
        out.append({"part": "shift", "cls": cls, "table": tab, "p_f": p_f, "p_i": p_i, "nx": nx,
                    "grid": g, "n": n, "T": T, "shift": s, "seed": seed})
    # the same pairs with a stepped / build-up schedule given by position: the schedule belongs to the levels, not to the
    # clock readings, so a shifted run with the same schedule is the same run
    for (cls, tab, p_f, p_i), nx, (g, n, T), s, sk in itertools.product(CONFIGS, nxs[:2], GRIDS, [-5.0, 123.456, 1e4],
                                                                        ["stepdown", "downup"]):
        if cls == "single":
            out.append({"part": "shift", "cls": cls, "table": tab, "p_f": p_f, "p_i": p_i, "nx": nx,
                        "grid": g, "n": n, "T": T, "shift": s, "seed": seed, "sched": sk})
    for (cls, tab, p_f, p_i), nx, (g, n, T) in itertools.product(CONFIGS, nxs, GRIDS):
        if cls == "single":
            out.append({"part": "const-schedule", "cls": cls, "table": tab, "p_f": p_f, "p_i": p_i,
                        "nx": nx, "grid": g, "n": n, "T": T, "seed": seed})
    # ... and on grids that do not start at zero (a constant schedule equals the scalar setting whatever the clock says)
    for (cls, tab, p_f, p_i), nx, (g, n, T), s in itertools.product(CONFIGS, nxs[:2], GRIDS[:5], [-5.0, 123.456]):
        if cls == "single":
            out.append({"part": "const-schedule", "cls": cls, "table": tab, "p_f": p_f, "p_i": p_i,
                        "nx": nx, "grid": g, "n": n, "T": T, "seed": seed, "shift": s})
    for (cls, tab, p_f, p_i), n in itertools.product(CONFIGS, [2, 8, 20]):
        if cls == "single":
            for L in range(0, 2 * n + 1):
                if L != n:
                    out.append({"part": "bad-length", "cls": cls, "table": tab, "p_f": p_f, "p_i": p_i,
                                "nx": 5, "n": n, "L": L})
    # the interpolator on long runs: into depletion (late recovery increments far below 1e-6), a very fine grid
    # (every increment tiny) and no drawdown at all (a flat curve)
    for (cls, tab, p_f, p_i), (g, n, T) in itertools.product(CONFIGS, [("quadratic", 1200, 100.0), ("uniform", 1500, 1.5e-3),
                                                                      ("geometric", 40, 0), ("quadratic", 60, 3.0)]):
        if tab and tab.startswith("A_"):
            tab = "S_zlin"
        for pf in (p_f, p_i):
            out.append({"part": "interp", "cls": cls, "table": tab or "S_ideal", "p_f": pf, "p_i": p_i, "nx": 30,
                        "grid": g, "n": n, "T": T, "seed": seed})
        if cls == "single" and n <= 60:  # a build-up schedule: recovery is not monotone, the final value is not the largest
            out.append({"part": "interp", "cls": cls, "table": tab, "p_f": p_f, "p_i": p_i, "nx": 30,
                        "grid": g, "n": n, "T": T, "seed": seed, "sched": "downup"})
    ops = ["rf", "rf_density", "rf_t", "interp", "sim"]
    for (cls, tab, p_f, p_i) in CONFIGS:
        for k in ((1, 2, 3, 4, 5) if tier == "thorough" else (1, 2, 3)):
            for path in itertools.product(ops, repeat=k):
                if tab and tab.startswith("A_"):
                    tab = "S_zlin"  # the density mode needs a density column
                for t0 in (0.0, -1.25):  # the second grid starts at a negative time
                    if t0 and k > 3:
                        continue
                    out.append({"part": "lifecycle", "cls": cls, "table": tab or "S_ideal", "p_f": p_f,
                                "p_i": p_i, "nx": 6, "path": list(path), "t0": t0})
    return out


def _sched_arr(case, t):
    return None


def eval_shift(case):
    cls = case["cls"]
    t = sim.time_grid(case["grid"], case["n"], case["T"], case["seed"])
    ts = t + case["shift"]
    a = sim.make_reservoir(cls, case["nx"], case["p_f"], case["p_i"], case["table"])
    b = sim.make_reservoir(cls, case["nx"], case["p_f"], case["p_i"], case["table"])
    sched = None
    if case.get("sched"):
        sched = sim.schedule(case["sched"], len(t), case["p_f"], case["p_i"], tables.table_range(case["table"])[0])
        a.simulate(t, sched.copy())
        b.simulate(ts, sched.copy())
    else:
        a.simulate(t)
        b.simulate(ts)
    u, us = a.pseudopressure, b.pseudopressure
    m_f, m_i = sim.frac_values(a, cls, case["p_f"], sched, len(t))
    draw = m_i - float(np.min(m_f))
    dts = np.diff(ts)
    dmin = dts[dts > 0].min()
    delta = 4 * EPS * (abs(case["shift"]) + abs(t).max()) / dmin  # relative rounding of a shifted dt
    # rounding of the linear solve itself: eps * cond(A) * |u| with cond(A) <= 1 + 4 nx^2 dt a_max
    a_max = 1.0 if cls == "ideal" else float(np.max(a.alpha_scaled(np.linspace(float(np.min(m_f)), m_i, 201))))
    cond = 1 + 4 * (case["nx"] + 1) ** 2 * float(dts.max()) * a_max
    tol_u = AMPLIFY * len(t) * delta * draw + (1e-12 + 8 * EPS * cond) * abs(m_i)
    viol = []
    d = np.max(np.abs(u - us), axis=1)  # one entry per pair of states, in lock step
    i = int(np.argmax(d))
    if not d[i] <= tol_u:
        viol.append(V("shift/field", f"shifting all times by {case['shift']} changes level {i} by {d[i]:.3g} "
                      f"(= {d[i] / draw:.3g} drawdowns); rounding bound {tol_u:.3g}", case=case,
                      observed=float(d[i]), tol=tol_u))
    for dens in (False, True):
        if dens and (cls == "ideal" or "density" not in a.fluid.pvt_props):
            continue
        r0 = a.recovery_factor(density=dens)
        r1 = b.recovery_factor(density=dens)
        scale = max(float(np.max(np.abs(r0))), 1e-300)
        tol_r = (16 * case["nx"] * (t[-1] - t[0]) * tol_u / max(draw, 1e-300) + len(t) * delta) * max(scale, draw) \
            + 1e-12
        e = float(np.max(np.abs(r0 - r1)))
        if not e <= tol_r:
            viol.append(V("shift/recovery", f"shift {case['shift']} changes recovery(density={dens}) by {e:.3g} "
                          f"(max recovery {scale:.3g}); rounding bound {tol_r:.3g}", case=case, observed=e,
                          tol=tol_r))
    return {"violations": viol, "states": 2 * len(t), "transitions": 2 * (len(t) - 1),
            "outcome": "shift-dev/bound<1e%d" % int(np.ceil(np.log10(max(d[i] / tol_u, 1e-9)))),
            "ratio": float(d[i] / tol_u)}


def eval_const(case):
    t = sim.time_grid(case["grid"], case["n"], case["T"], case["seed"])
    if case.get("shift"):
        t = t + case["shift"]
    a = sim.make_reservoir("single", case["nx"], case["p_f"], case["p_i"], case["table"])
    b = sim.make_reservoir("single", case["nx"], case["p_f"], case["p_i"], case["table"])
    a.simulate(t)
    b.simulate(t, np.full(len(t), case["p_f"]))
    viol = []
    if not history.same(a.pseudopressure, b.pseudopressure):
        viol.append(V("const-schedule/field", "a schedule that is constant in time does not reproduce the "
                      f"scalar setting bitwise (max diff {np.max(np.abs(a.pseudopressure - b.pseudopressure)):.3g})",
                      case=case, tol=0))
    for dens in (False, True):
        if dens and "density" not in a.fluid.pvt_props:
            continue
        if not history.same(a.recovery_factor(density=dens), b.recovery_factor(density=dens)):
            viol.append(V("const-schedule/recovery", f"recovery(density={dens}) differs between scalar and "
                          "constant schedule", case=case, tol=0))
    # a constant schedule at ANOTHER value than the object's own scalar, given as list / integer array / float array:
    # the result is that of an object whose scalar setting is that value
    p_lo = tables.table_range(case["table"])[0]
    other = float(int(max(p_lo + 1.0, 0.5 * (case["p_f"] + p_lo))))  # a whole number of psi, below the own setting
    ref = sim.make_reservoir("single", case["nx"], other, case["p_i"], case["table"])
    ref.simulate(t)
    for form, sched in (("float array", np.full(len(t), other)), ("list", [other] * len(t)),
                        ("integer array", np.full(len(t), int(other), dtype=np.int64))):
        c = sim.make_reservoir("single", case["nx"], case["p_f"], case["p_i"], case["table"])
        c.simulate(t, sched)
        if not history.same(c.pseudopressure, ref.pseudopressure):
            viol.append(V("const-schedule/other-value", f"object with scalar setting {case['p_f']} given a constant schedule "
                          f"of {other} psi as {form}: differs from an object whose scalar setting is {other} (max diff "
                          f"{np.max(np.abs(np.asarray(c.pseudopressure) - np.asarray(ref.pseudopressure))):.3g})", case=case, tol=0))
            break
    return {"violations": viol, "states": 5 * len(t), "transitions": 5 * (len(t) - 1), "outcome": "const=scalar"}


def eval_badlen(case):
    t = np.linspace(0.0, 1.0, case["n"])
    r = sim.make_reservoir("single", case["nx"], case["p_f"], case["p_i"], case["table"])
    r.simulate(np.linspace(0.0, 2.0, 5))  # an earlier, valid run: a rejected call must leave it untouched
    before = history.canon(r)
    try:
        r.simulate(t, np.full(case["L"], case["p_f"]))
    except ValueError:
        if history.canon(r) != before:
            return {"violations": [V("bad-length/left-a-trace", f"the rejected schedule of length {case['L']} for {case['n']} "
                                     "times changed the object (stored run mixed with the rejected call's arguments)", case=case)],
                    "states": 1, "transitions": 1, "outcome": "trace"}
        return {"violations": [], "states": 1, "transitions": 1, "outcome": "ValueError"}
    except Exception as e:  # noqa: BLE001
        return {"violations": [V("bad-length/wrong-exception", f"schedule of length {case['L']} for {case['n']} "
                                 f"times raises {type(e).__name__}, not ValueError", case=case)],
                "states": 1, "transitions": 1, "outcome": type(e).__name__}
    return {"violations": [V("bad-length/accepted", f"schedule of length {case['L']} for {case['n']} times "
                             "was accepted", case=case)], "states": 1, "transitions": 1, "outcome": "accepted"}


def eval_interp(case):
    """The interpolator against the recovery curve of the same object, at every simulated time and outside them."""
    t = sim.time_grid(case["grid"], case["n"], case["T"], case["seed"])
    viol = []
    states = 0
    for dens in (False, True):
        r = sim.make_reservoir(case["cls"], case["nx"], case["p_f"], case["p_i"], case["table"])
        if dens and (case["cls"] == "ideal" or "density" not in r.fluid.pvt_props):
            continue
        if case.get("sched"):
            r.simulate(t.copy(), sim.schedule(case["sched"], len(t), case["p_f"], case["p_i"], tables.table_range(case["table"])[0]))
        else:
            r.simulate(t.copy())
        rec = np.asarray(r.recovery_factor(density=dens), dtype=float).copy()
        f = r.recovery_factor_interpolator()
        at = np.asarray(f(t), dtype=float)
        states += len(t)
        bad = np.abs(at - rec) > 1e-15 + 4 * EPS * np.abs(rec)
        if bad.any():
            k = int(np.argmax(np.abs(at - rec)))
            viol.append(V("interp/nodes", f"interpolator(density={dens}) at simulated time {t[k]!r} gives {at[k]!r}, "
                          f"recovery there is {rec[k]!r} ({int(bad.sum())} of {len(t)} times differ)", case=case,
                          observed=float(at[k]), expected=float(rec[k])))
        before = np.asarray(f([t[0] - 1.0, t[0] - 1e-9, -1e300]), dtype=float)
        after = np.asarray(f([t[-1] * (1 + 1e-9) + 1e-300, t[-1] + 5.0, 1e300]), dtype=float)
        if not np.all(before == 0.0):
            viol.append(V("interp/before", f"interpolator before the first time gives {before}", case=case))
        if not np.all(after == rec[-1]):
            viol.append(V("interp/after", f"interpolator after the last time gives {after}, final recovery {rec[-1]!r}",
                          case=case))
    return {"violations": viol, "states": states, "transitions": states, "outcome": "interp"}


def eval_lifecycle(case):
    from bluebonnet.flow import IdealReservoir, SinglePhaseReservoir  # noqa: PLC0415

    fl = tables.fluid(case["table"], case["p_i"])
    r = (IdealReservoir if case["cls"] == "ideal" else SinglePhaseReservoir)(case["nx"], case["p_f"],
                                                                            case["p_i"], fl)
    t = sim.time_grid("quadratic", 9, 2.0) + case.get("t0", 0.0)
    simulated = False
    last_kind = None  # density flag of the latest recovery call (decides which curve the interpolator serves)

    def fresh_curve(dens):
        q = (IdealReservoir if case["cls"] == "ideal" else SinglePhaseReservoir)(case["nx"], case["p_f"], case["p_i"], fl)
        q.simulate(t.copy())
        return np.asarray(q.recovery_factor(density=dens), dtype=float)
    viol = []
    states = 1
    for k, op in enumerate(case["path"]):
        states += 1
        try:
            if op == "sim":
                r.simulate(t.copy())
                simulated = True
                last_kind = None
                continue
            if op in ("rf", "rf_density", "rf_t"):
                if op == "rf_t":  # the optional time argument (another grid of the same length)
                    val = r.recovery_factor(time=np.linspace(t[0], t[-1], len(t)))
                else:
                    val = r.recovery_factor(density=(op == "rf_density"))
                if simulated:
                    last_kind = op == "rf_density"
                if not simulated:
                    viol.append(V("lifecycle/no-error-before-simulate", f"{op} before any simulate returned a "
                                  f"value (path {case['path'][:k + 1]})", case=case))
                elif len(val) != len(t) or val[0] != 0:
                    viol.append(V("lifecycle/recovery-start", f"{op} after simulate: length {len(val)}, first "
                                  f"value {val[0]!r}", case=case))
            if op == "interp":
                f = r.recovery_factor_interpolator()
                if not simulated:
                    viol.append(V("lifecycle/no-error-before-simulate", "interpolator before any simulate was "
                                  f"built (path {case['path'][:k + 1]})", case=case))
                    continue
                rec = fresh_curve(bool(last_kind))  # recovery at the simulated times, from a fresh object
                at = np.asarray(f(t), dtype=float)
                tol = 1e-15 + 4 * EPS * np.abs(rec)
                if not np.all(np.abs(at - rec) <= tol):
                    viol.append(V("lifecycle/interp-nodes", "interpolator does not reproduce recovery at the "
                                  f"simulated times (max diff {np.max(np.abs(at - rec)):.3g})", case=case))
                before = np.asarray(f([t[0] - 1.0, t[0] - 1e-9 * max(1.0, abs(t[0])), -1e300]), dtype=float)
                after = np.asarray(f([t[-1] + 1e-9, t[-1] + 5.0, 1e300]), dtype=float)
                if not np.all(before == 0.0):
                    viol.append(V("lifecycle/interp-before", f"interpolator before the first time gives {before}",
                                  case=case))
                if not np.all(after == rec[-1]):
                    viol.append(V("lifecycle/interp-after", f"interpolator after the last time gives {after}, "
                                  f"final recovery {rec[-1]!r}", case=case))
        except Exception as e:  # noqa: BLE001
            if simulated:
                viol.append(V("lifecycle/unexpected-error", f"{op} after simulate raised {type(e).__name__}: {e}",
                              case=case))
    return {"violations": viol, "states": states, "transitions": len(case["path"]),
            "outcome": "lifecycle:" + ("S" if simulated else "F")}


def evaluate(case):
    return {"shift": eval_shift, "const-schedule": eval_const, "bad-length": eval_badlen,
            "lifecycle": eval_lifecycle, "interp": eval_interp}[case["part"]](case)


def run(ctx):
    cs = cases(ctx.tier, ctx.seed)
    res = ctx.pmap(evaluate, cs)
    parts = {}
    for c in cs:
        parts[c["part"]] = parts.get(c["part"], 0) + 1
    cov = {
        "states": sum(r.get("states", 0) for r in res),
        "transitions": sum(r.get("transitions", 0) for r in res),
        "traces_validated_against_impl": len(cs),
        "cases_by_part": parts,
        "shift_worst_deviation_over_bound": max([r.get("ratio", 0.0) for r in res] + [0.0]),
        "samples": [next(c for c in cs if c["part"] == p) for p in parts],
        "explanation": "shift: shifted and unshifted runs compared state by state; lifecycle: every path of "
                       "length <= 3 over {rf, rf(density), interp, simulate} from a fresh object",
    }
    return ctx.finish("model_checking", cov, [
        "shift tolerance = n_steps * 4 eps (|shift| + t_max)/min(dt>0) * drawdown + 1e-12|m_i| "
        "(first-order sensitivity of a backward-Euler step to its rounded increment)",
    ])


def replay(case):
    return evaluate(case)["violations"]
