"""C11 - array evaluation equals element-wise scalar evaluation for every dtype, layout and
split around the bubble point; floating results of the input's shape; input left untouched."""

from __future__ import annotations

import itertools

import numpy as np

from ..common import V, samples_of, seed_offset

# the last oil has *integer-typed* parameters, as in the library's own docstrings (Fluid(200, 35, 0.8, 650))
OILS = [(200.0, 35.0, 0.8, 650.0), (120.0, 22.0, 0.65, 180.0), (300.0, 48.0, 1.1, 1900.0), (200, 35, 0.8, 650)]
DTYPES = ["f8", "f4", "i8", "i4"]
LAYOUTS = ["contiguous", "stride2", "reversed"]
ULPS = 64  # of the floating type involved: a dozen elementary operations and two powers


def functions():
    from bluebonnet.fluids import Fluid, oil, water  # noqa: PLC0415

    def mk_oil(f):
        return lambda o, p: f(o[0], p, o[1], o[2], o[3])

    fl = lambda o: Fluid(o[0], o[1], o[2], o[3], salinity=7.0)  # noqa: E731
    return {
        "b_o_Standing": (mk_oil(oil.b_o_Standing), mk_oil(oil.b_o_Standing)),
        "solution_gor_Standing": (mk_oil(oil.solution_gor_Standing), mk_oil(oil.solution_gor_Standing)),
        "oil_compressibility_undersat_Spivey": (mk_oil(oil.oil_compressibility_undersat_Spivey),
                                                mk_oil(oil.oil_compressibility_undersat_Spivey)),
        "b_water_McCain": (lambda o, p: water.b_water_McCain(o[0], p),) * 2,
        "b_water_McCain_dp": (lambda o, p: water.b_water_McCain_dp(o[0], p),) * 2,
        "compressibility_water_McCain": (lambda o, p: water.compressibility_water_McCain(o[0], p, 7.0),) * 2,
        "density_water_McCain": (lambda o, p: water.density_water_McCain(o[0], p, 7.0),) * 2,
        "viscosity_water_McCain": (lambda o, p: water.viscosity_water_McCain(o[0], p, 7.0),) * 2,
        "Fluid.oil_FVF": (lambda o, p: fl(o).oil_FVF(p), mk_oil(oil.b_o_Standing)),
        "Fluid.oil_viscosity": (lambda o, p: fl(o).oil_viscosity(p), mk_oil(oil.viscosity_beggs_robinson)),
        "Fluid.water_FVF": (lambda o, p: fl(o).water_FVF(p), lambda o, p: water.b_water_McCain(o[0], p)),
        "Fluid.water_viscosity": (lambda o, p: fl(o).water_viscosity(p),
                                  lambda o, p: water.viscosity_water_McCain(o[0], p, 7.0)),
    }


def alphabet(o, dtype, off):
    from bluebonnet.fluids import oil  # noqa: PLC0415

    pb = float(oil.pressure_bubblepoint_Standing(*o))
    if dtype.startswith("i"):
        vals = [15, int(0.5 * pb), int(np.floor(pb)) - 1, int(np.floor(pb)), int(np.ceil(pb)), int(np.ceil(pb)) + 1,
                int(min(2.5 * pb, 20000))]
    else:
        t = np.dtype(dtype).type
        c = t(pb)
        vals = [15.0, 0.5 * pb, float(np.nextafter(c, t(0))), float(c), float(np.nextafter(c, t(1e9))),
                1.5 * pb, min(2.5 * pb, 20000.0)]
        if off:
            vals[1] = (0.2 + 0.6 * off) * pb
    return sorted(set(vals)), pb


def make_array(vals, dtype, layout):
    a = np.array(vals, dtype=dtype)
    if layout == "contiguous":
        return a, a
    if layout == "stride2":
        base = np.zeros(2 * len(vals) + 1, dtype=dtype) + np.array(17, dtype=dtype)
        base[::2][:len(vals)] = a
        return base[::2][:len(vals)], base
    base = a[::-1].copy()
    return base[::-1], base


def evaluate(case):
    fname, o, dtype, layout = case["fn"], tuple(case["oil"]), case["dtype"], case["layout"]
    f_arr, f_sca = functions()[fname]
    vals, pb = alphabet(o, dtype, case["off"])
    ftype = np.float32 if dtype == "f4" else np.float64
    eps = np.finfo(ftype).eps
    scal = {}
    for v in vals:
        x = float(np.array(v, dtype=dtype))
        try:
            scal[v] = float(f_sca(o, x))
        except Exception as e:  # noqa: BLE001
            scal[v] = e
    viol, n_eval, seen_split = [], 0, set()
    for L in range(0, case["maxlen"] + 1):
        for combo in itertools.product(vals, repeat=L):
            n_eval += 1
            arr, base = make_array(list(combo), dtype, layout)
            before = base.tobytes()
            c = dict(case, values=list(combo))
            try:
                out = f_arr(o, arr)
            except Exception as e:  # noqa: BLE001
                viol.append(V("array/raises", f"{fname} on a {dtype} array {list(combo)} ({layout}) raises "
                              f"{type(e).__name__}: {e}", case=c))
                continue
            out = np.asarray(out)
            if base.tobytes() != before:
                viol.append(V("array/input-modified", f"{fname} modified its input array", case=c))
            if out.shape != arr.shape:
                viol.append(V("array/shape", f"{fname}: result shape {out.shape} for input shape {arr.shape}", case=c))
                continue
            if out.dtype.kind != "f":
                viol.append(V("array/dtype", f"{fname} on {dtype} input returns dtype {out.dtype}, not floating"
                              + (f": {out.tolist()} vs scalar calls {[scal[v] for v in combo]}" if L else ""),
                              case=c, observed=out.tolist(), expected=[scal[v] for v in combo]))
                if not L:
                    continue
            for k, v in enumerate(combo):
                ref = scal[v]
                if isinstance(ref, Exception):
                    continue
                got = float(out[k])
                if not abs(got - ref) <= ULPS * eps * abs(ref):
                    viol.append(V("array/element", f"{fname}({dtype} {layout})[{k}] at p={v!r} (p_b={pb:.9g}) = "
                                  f"{got!r}, scalar call gives {ref!r}", case=c, observed=got, expected=ref,
                                  tol=ULPS * eps * abs(ref)))
                    break
            seen_split.add(tuple(np.sign(np.array(combo, dtype=float) - pb).astype(int)) if L else ())
            if len(viol) > 3:
                break
        if len(viol) > 3:
            break
    return {"violations": viol[:2], "evals": n_eval, "splits": len(seen_split), "outcome": f"{dtype}:{layout}"}


def cases(tier, seed):
    off = seed_offset(seed) if seed else 0.0
    maxlen = 4 if tier == "thorough" else 3
    return [{"fn": f, "oil": list(o), "dtype": d, "layout": l, "maxlen": maxlen, "off": off}
            for f, o, d, l in itertools.product(list(functions().keys()), OILS, DTYPES, LAYOUTS)]


def run(ctx):
    cs = cases(ctx.tier, ctx.seed)
    res = ctx.pmap(evaluate, cs, chunksize=1)
    cov = {
        "evaluations": sum(r.get("evals", 0) for r in res),
        "distinct_nontrivial": sum(r.get("splits", 0) for r in res),
        "rule": "all arrays of length 0..maxlen over a 7-value pressure alphabet (15, 0.5 p_b, prev/at/next of "
                "p_b in the array's own dtype, 1.5 p_b, 2.5 p_b) x dtype x layout x oil x function; non-trivial = "
                "distinct below/at/above-bubble-point sign patterns evaluated per (function, oil, dtype, layout)",
        "samples": samples_of(cs), "functions": list(functions().keys()),
    }
    return ctx.finish("exploration", cov, [
        f"element tolerance {ULPS} eps of the floating type involved (float32 inputs: float32 eps)",
        "2-D arrays and scalar arguments to Fluid.water_FVF / gas_FVF are outside the stated quantifier",
    ])


def replay(case):
    vals = case.pop("values", None)
    r = evaluate(case)
    return r["violations"]
