"""C11 - array evaluation equals element-wise scalar evaluation for every dtype, layout and
split around the bubble point; floating results of the input's shape; input left untouched."""

from __future__ import annotations

import itertools

import numpy as np

from ..common import V, samples_of, seed_offset

# the last oil has *integer-typed* parameters, as in the library's own docstrings (Fluid(200, 35, 0.8, 650))
OILS = [(200.0, 35.0, 0.8, 650.0), (120.0, 22.0, 0.65, 180.0), (300.0, 48.0, 1.1, 1900.0), (200, 35, 0.8, 650)]
DTYPES = ["f8", "f4", "i8", "i4"]
LAYOUTS = ["contiguous", "stride2", "reversed"]
NO_SERIES: set = set()  # functions whose pristine form does not take a pandas Series (none found)
ULPS = 64  # of the floating type involved: a dozen elementary operations and two powers


def functions():
    from bluebonnet.fluids import Fluid, gas, oil, water  # noqa: PLC0415

    def pc(o):  # pseudocritical point of the oil's associated gas
        return gas.pseudocritical_point_Sutton(float(o[2]), gas.make_nonhydrocarbon_properties(0.01, 0.0, 0.02), "wet gas")

    def mk_oil(f):
        return lambda o, p: f(o[0], p, o[1], o[2], o[3])

    fl = lambda o: Fluid(o[0], o[1], o[2], o[3], salinity=7.0)  # noqa: E731
    return {
        "b_o_Standing": (mk_oil(oil.b_o_Standing), mk_oil(oil.b_o_Standing)),
        "solution_gor_Standing": (mk_oil(oil.solution_gor_Standing), mk_oil(oil.solution_gor_Standing)),
        "oil_compressibility_undersat_Spivey": (mk_oil(oil.oil_compressibility_undersat_Spivey),
                                                mk_oil(oil.oil_compressibility_undersat_Spivey)),
        "b_water_McCain": (lambda o, p: water.b_water_McCain(o[0], p),) * 2,
        "b_water_McCain_dp": (lambda o, p: water.b_water_McCain_dp(o[0], p),) * 2,
        "compressibility_water_McCain": (lambda o, p: water.compressibility_water_McCain(o[0], p, 7.0),) * 2,
        "density_water_McCain": (lambda o, p: water.density_water_McCain(o[0], p, 7.0),) * 2,
        "viscosity_water_McCain": (lambda o, p: water.viscosity_water_McCain(o[0], p, 7.0),) * 2,
        "Fluid.oil_FVF": (lambda o, p: fl(o).oil_FVF(p), mk_oil(oil.b_o_Standing)),
        "Fluid.oil_viscosity": (lambda o, p: fl(o).oil_viscosity(p), mk_oil(oil.viscosity_beggs_robinson)),
        "Fluid.water_FVF": (lambda o, p: fl(o).water_FVF(p), lambda o, p: water.b_water_McCain(o[0], p)),
        "Fluid.water_viscosity": (lambda o, p: fl(o).water_viscosity(p),
                                  lambda o, p: water.viscosity_water_McCain(o[0], p, 7.0)),
        "Fluid.gas_FVF": (lambda o, p: fl(o).gas_FVF(p, *pc(o)), lambda o, p: gas.b_factor_DAK(o[0], p, *pc(o))),
        "Fluid.gas_viscosity": (lambda o, p: fl(o).gas_viscosity(p, *pc(o)),
                                lambda o, p: gas.viscosity_Sutton(o[0], p, *pc(o), o[2])),
    }


NO_2D = ("oil_compressibility_undersat_Spivey", "Fluid.gas_FVF", "Fluid.gas_viscosity")  # 1-D by construction


def eval_long(case):
    """Long, unsorted arrays (64 and 1000 elements) over [1 psia, 2.5 p_b], containing p_b itself, 1, 5 and 14.7 psia:
    paths that depend on the array length, and the low end of the pressure range."""
    from ..common import LCG  # noqa: PLC0415

    fname, o, dtype = case["fn"], tuple(case["oil"]), case["dtype"]
    f_arr, f_sca = functions()[fname]
    _, pb = alphabet(o, "f8", 0.0)
    ftype = np.float32 if dtype == "f4" else np.float64
    eps = np.finfo(ftype).eps
    g = LCG(case["n"] + 3)
    hi = min(2.5 * pb, 20000.0)
    vals = [1.0, 5.0, 14.7, pb, hi] + [1.0 + (hi - 1.0) * g.next() for _ in range(case["n"] - 5)]
    arr = np.array(vals, dtype=dtype)
    keep = arr.copy()
    viol = []
    try:
        out = np.asarray(f_arr(o, arr))
    except Exception as e:  # noqa: BLE001
        return {"violations": [V("array/raises", f"{fname} on a {dtype} array of {case['n']} pressures raises "
                                 f"{type(e).__name__}: {e}", case=case)], "evals": 1, "splits": 0, "outcome": "long"}
    if not np.array_equal(arr, keep):
        viol.append(V("array/input-modified", f"{fname} modified its input array", case=case))
    if out.shape != arr.shape or out.dtype.kind != "f":
        viol.append(V("array/shape", f"{fname}: result shape {out.shape}, dtype {out.dtype} for {case['n']} {dtype} pressures",
                      case=case))
        return {"violations": viol, "evals": 1, "splits": 0, "outcome": "long"}
    with np.errstate(all="ignore"):
        ref = np.array([float(f_sca(o, float(x))) for x in keep])
    bad = ~((np.abs(out - ref) <= ULPS * eps * np.abs(ref)) | (np.isnan(out) & np.isnan(ref)))
    if bad.any():
        k = int(np.flatnonzero(bad)[0])
        viol.append(V("array/element", f"{fname}({dtype}, {case['n']} unsorted pressures)[{k}] at p={float(keep[k])!r} "
                      f"(p_b={pb:.9g}) = {float(out[k])!r}, scalar call gives {float(ref[k])!r} ({int(bad.sum())} elements differ)",
                      case=case, observed=float(out[k]), expected=float(ref[k])))
    return {"violations": viol, "evals": case["n"], "splits": 0, "outcome": "long"}


def alphabet(o, dtype, off):
    from bluebonnet.fluids import oil  # noqa: PLC0415

    pb = float(oil.pressure_bubblepoint_Standing(*o))
    if dtype.startswith("i"):
        vals = [15, int(0.5 * pb), int(np.floor(pb)) - 1, int(np.floor(pb)), int(np.ceil(pb)), int(np.ceil(pb)) + 1,
                int(min(2.5 * pb, 20000))]
    else:
        t = np.dtype(dtype).type
        c = t(pb)
        vals = [15.0, 0.5 * pb, float(np.nextafter(c, t(0))), float(c), float(np.nextafter(c, t(1e9))),
                1.5 * pb, min(2.5 * pb, 20000.0)]
        if off:
            vals[1] = (0.2 + 0.6 * off) * pb
    return sorted(set(vals)), pb


def make_array(vals, dtype, layout):
    a = np.array(vals, dtype=dtype)
    if layout == "contiguous":
        return a, a
    if layout == "stride2":
        base = np.zeros(2 * len(vals) + 1, dtype=dtype) + np.array(17, dtype=dtype)
        base[::2][:len(vals)] = a
        return base[::2][:len(vals)], base
    base = a[::-1].copy()
    return base[::-1], base


def evaluate(case):
    fname, o, dtype, layout = case["fn"], tuple(case["oil"]), case["dtype"], case["layout"]
    f_arr, f_sca = functions()[fname]
    vals, pb = alphabet(o, dtype, case["off"])
    ftype = np.float32 if dtype == "f4" else np.float64
    eps = np.finfo(ftype).eps
    scal = {}
    for v in vals:
        x = float(np.array(v, dtype=dtype))
        try:
            scal[v] = float(f_sca(o, x))
        except Exception as e:  # noqa: BLE001
            scal[v] = e
    viol, n_eval, seen_split = [], 0, set()
    for L in range(0, case["maxlen"] + 1):
        for combo in itertools.product(vals, repeat=L):
            n_eval += 1
            arr, base = make_array(list(combo), dtype, layout)
            before = base.tobytes()
            c = dict(case, values=list(combo))
            try:
                out = f_arr(o, arr)
            except Exception as e:  # noqa: BLE001
                viol.append(V("array/raises", f"{fname} on a {dtype} array {list(combo)} ({layout}) raises "
                              f"{type(e).__name__}: {e}", case=c))
                continue
            out = np.asarray(out)
            if base.tobytes() != before:
                viol.append(V("array/input-modified", f"{fname} modified its input array", case=c))
            if out.shape != arr.shape:
                viol.append(V("array/shape", f"{fname}: result shape {out.shape} for input shape {arr.shape}", case=c))
                continue
            if out.dtype.kind != "f":
                viol.append(V("array/dtype", f"{fname} on {dtype} input returns dtype {out.dtype}, not floating"
                              + (f": {out.tolist()} vs scalar calls {[scal[v] for v in combo]}" if L else ""),
                              case=c, observed=out.tolist(), expected=[scal[v] for v in combo]))
                if not L:
                    continue
            for k, v in enumerate(combo):
                ref = scal[v]
                if isinstance(ref, Exception):
                    continue
                got = float(out[k])
                if not abs(got - ref) <= ULPS * eps * abs(ref):
                    viol.append(V("array/element", f"{fname}({dtype} {layout})[{k}] at p={v!r} (p_b={pb:.9g}) = "
                                  f"{got!r}, scalar call gives {ref!r}", case=c, observed=got, expected=ref,
                                  tol=ULPS * eps * abs(ref)))
                    break
            seen_split.add(tuple(np.sign(np.array(combo, dtype=float) - pb).astype(int)) if L else ())
            if len(viol) > 3:
                break
        if len(viol) > 3:
            break
    # 2-D arrays (C-ordered, Fortran-ordered, transposed view): same element-wise law, same shape
    if layout == "contiguous" and dtype == "f8" and fname not in NO_2D and len(viol) < 2:
        for combo in itertools.product(vals, repeat=4):
            for lay2 in ("C", "F", "T"):
                n_eval += 1
                base2 = np.array(combo, dtype=dtype).reshape(2, 2)
                arr2 = {"C": base2, "F": np.asfortranarray(base2), "T": base2.T}[lay2]
                keep = arr2.copy()
                try:
                    out2 = np.asarray(f_arr(o, arr2))
                except Exception as e:  # noqa: BLE001
                    viol.append(V("array2d/raises", f"{fname} on a 2x2 {lay2}-ordered array raises {type(e).__name__}: {e}",
                                  case=dict(case, values=list(combo), layout2=lay2)))
                    break
                ref2 = np.array([[scal[v] if not isinstance(scal[v], Exception) else np.nan for v in row] for row in keep.tolist()])
                if out2.shape != keep.shape or not np.array_equal(arr2, keep):
                    viol.append(V("array2d/shape-or-input", f"{fname} on a 2x2 {lay2}-ordered array: result shape {out2.shape}, "
                                  f"input modified: {not np.array_equal(arr2, keep)}", case=dict(case, values=list(combo), layout2=lay2)))
                    break
                if not np.all(np.abs(out2 - ref2) <= ULPS * eps * np.abs(ref2)):
                    viol.append(V("array2d/element", f"{fname} on the 2x2 {lay2}-ordered array {keep.tolist()} returns "
                                  f"{out2.tolist()}, scalar calls give {ref2.tolist()}", case=dict(case, values=list(combo), layout2=lay2)))
                    break
            if len(viol) >= 2:
                break
    # pandas Series (a pressure column of a table): positional element-wise law whatever the index looks like - a permuted
    # integer index (sort_values without reset_index), labels with gaps (a filtered column), duplicated labels (two files
    # concatenated), string labels.  `series[int_array]` / `series[i]` are LABEL look-ups: code that indexes its input by
    # position numbers silently pairs pressures with the wrong elements (or raises) for exactly these columns.
    if layout == "contiguous" and dtype == "f8" and fname not in NO_SERIES and len(viol) < 2:
        import pandas as pd  # noqa: PLC0415

        for L in (1, 3):
            for combo in itertools.product(vals, repeat=L):
                for iname, index in (("permuted", [2, 0, 1][:L] if L > 1 else [5]), ("gapped", [10, 20, 40][:L]),
                                     ("duplicated", [0, 0, 1][:L]), ("strings", ["a", "b", "c"][:L])):
                    n_eval += 1
                    ser = pd.Series(np.array(combo, dtype=float), index=index)
                    keep = ser.copy(deep=True)
                    cs = dict(case, values=list(combo), series_index=iname)
                    try:
                        outs = np.asarray(f_arr(o, ser))
                    except Exception as e:  # noqa: BLE001
                        viol.append(V("series/raises", f"{fname} on a pandas Series of pressures with a {iname} index {index} raises "
                                      f"{type(e).__name__}: {e}", case=cs))
                        break
                    refs = np.array([scal[v] if not isinstance(scal[v], Exception) else np.nan for v in combo])
                    if outs.shape != (L,) or not (ser.to_numpy() == keep.to_numpy()).all() or list(ser.index) != list(keep.index):
                        viol.append(V("series/shape-or-input", f"{fname} on a Series ({iname} index): result shape {outs.shape}, "
                                      "or the Series was modified", case=cs))
                        break
                    if not np.all((np.abs(outs.astype(float) - refs) <= ULPS * eps * np.abs(refs)) | np.isnan(refs)):
                        viol.append(V("series/element", f"{fname} on the Series {list(combo)} with {iname} index {index} returns "
                                      f"{outs.tolist()}; the scalar calls, in order, give {refs.tolist()}", case=cs))
                        break
                else:
                    continue
                break
            if len(viol) >= 2:
                break
    return {"violations": viol[:2], "evals": n_eval, "splits": len(seen_split), "outcome": f"{dtype}:{layout}"}


def eval_history(case):
    """Several fluids evaluated one after another in one process with arrays of the same length: each
    result must still equal that fluid's own scalar calls (nothing is carried over between fluids)."""
    fns = functions()
    viol, n = [], 0
    for fname in ("b_o_Standing", "oil_compressibility_undersat_Spivey", "solution_gor_Standing", "Fluid.oil_FVF",
                  "Fluid.oil_viscosity"):
        f_arr, f_sca = fns[fname]
        for o in [tuple(x) for x in case["oils"]]:
            vals, pb = alphabet(o, "f8", 0.0)
            arr = np.array([1.2 * pb, 1.6 * pb, 2.2 * pb, 0.5 * pb, 0.8 * pb][: case["n"]] if fname != "oil_compressibility_undersat_Spivey"
                           else [1.2 * pb, 1.6 * pb, 2.2 * pb, 1.1 * pb, 2.4 * pb][: case["n"]])
            out = np.asarray(f_arr(o, arr), dtype=float)
            ref = np.array([float(f_sca(o, float(x))) for x in arr])
            n += 1
            if not np.all(np.abs(out - ref) <= ULPS * np.finfo(float).eps * np.abs(ref)):
                viol.append(V("array/after-other-fluid", f"{fname} for oil {o}, evaluated after other oils with arrays of the "
                              f"same length, returns {out.tolist()}; its own scalar calls give {ref.tolist()}",
                              case=dict(case, fn=fname, oil=list(o))))
                break
    # ONE Fluid object used the way a simulation loop uses it: the same pressure array updated in place between
    # calls, then another array of the same length; earlier results must stay what they were
    from bluebonnet.fluids import Fluid, gas  # noqa: PLC0415

    for o in [tuple(x) for x in case["oils"]]:
        fluid = Fluid(o[0], o[1], o[2], o[3], salinity=7.0)
        _, pb = alphabet(o, "f8", 0.0)
        pcp = gas.pseudocritical_point_Sutton(float(o[2]), gas.make_nonhydrocarbon_properties(0.01, 0.0, 0.02), "wet gas")
        for fname in ("Fluid.oil_FVF", "Fluid.oil_viscosity", "Fluid.water_FVF", "Fluid.water_viscosity", "Fluid.gas_FVF",
                      "Fluid.gas_viscosity"):
            meth = getattr(fluid, fname.split(".")[1])
            extra = pcp if "gas" in fname else ()
            f_sca = fns[fname][1]
            arr = np.array([1.6 * pb, 1.1 * pb, 0.7 * pb][: case["n"]])
            r1 = np.array(meth(arr, *extra), dtype=float)
            r1_keep = r1.copy()
            arr -= 0.3 * pb  # in place: the same array object, other pressures
            r2 = np.asarray(meth(arr, *extra), dtype=float)
            other = np.array([0.9 * pb, 2.0 * pb, 1.3 * pb][: case["n"]])
            r3 = np.asarray(meth(other, *extra), dtype=float)
            n += 3
            for got, at in ((r2, arr), (r3, other)):
                ref = np.array([float(f_sca(o, float(x))) for x in at])
                if not np.all(np.abs(got - ref) <= ULPS * np.finfo(float).eps * np.abs(ref)):
                    viol.append(V("array/same-object-history", f"{fname} on one Fluid object: after the pressure array was "
                                  f"updated in place (or replaced by one of equal length) the call returns {got.tolist()}; "
                                  f"scalar calls give {ref.tolist()}", case=dict(case, fn=fname, oil=list(o))))
                    break
            if not np.array_equal(r1, r1_keep):
                viol.append(V("array/result-overwritten", f"{fname}: a result returned earlier was overwritten by a later call",
                              case=dict(case, fn=fname, oil=list(o))))
    return {"violations": viol[:2], "evals": n, "splits": 0, "outcome": "history"}


def cases(tier, seed):
    off = seed_offset(seed) if seed else 0.0
    maxlen = 4 if tier == "thorough" else 3
    return [{"fn": f, "oil": list(o), "dtype": d, "layout": l, "maxlen": maxlen, "off": off}
            for f, o, d, l in itertools.product(list(functions().keys()), OILS, DTYPES, LAYOUTS)]


def dispatch(case):
    if case.get("kind") == "long":
        return eval_long(case)
    return eval_history(case) if case.get("kind") == "history" else evaluate(case)


def run(ctx):
    cs = cases(ctx.tier, ctx.seed)
    cs += [{"kind": "history", "oils": [list(o) for o in OILS[:3]], "n": n} for n in (3, 5)]
    cs += [{"kind": "history", "oils": [list(o) for o in OILS[:3]][::-1], "n": 3}]
    cs += [{"kind": "long", "fn": f, "oil": list(o), "dtype": d, "n": n}
           for f, o, d, n in itertools.product(list(functions().keys()), OILS[:3], ["f8", "f4", "i8"], [64, 1000])]
    # thousands of cells are ordinary (nx, daily histories): one 5000-element (thorough: also 20 000) array per function
    cs += [{"kind": "long", "fn": f, "oil": list(OILS[0]), "dtype": "f8", "n": n}
           for f, n in itertools.product(list(functions().keys()), [5000] + ([20000] if ctx.tier == "thorough" else []))]
    res = ctx.pmap(dispatch, cs, chunksize=1)
    cov = {
        "evaluations": sum(r.get("evals", 0) for r in res),
        "distinct_nontrivial": sum(r.get("splits", 0) for r in res),
        "rule": "all arrays of length 0..maxlen over a 7-value pressure alphabet (15, 0.5 p_b, prev/at/next of "
                "p_b in the array's own dtype, 1.5 p_b, 2.5 p_b) x dtype x layout x oil x function; non-trivial = "
                "distinct below/at/above-bubble-point sign patterns evaluated per (function, oil, dtype, layout)",
        "samples": samples_of(cs), "functions": list(functions().keys()),
    }
    return ctx.finish("exploration", cov, [
        f"element tolerance {ULPS} eps of the floating type involved (float32 inputs: float32 eps)",
        "2 x 2 arrays (C, Fortran, transposed) are held to the same element law ('results have the input's shape'); scalar "
        "arguments to Fluid.water_FVF / gas_FVF are outside the stated quantifier; array lengths up to 5000 (thorough 20 000)",
    ])


def replay(case):
    case = {k: v for k, v in case.items() if k not in ("values", "layout2")}
    if case.get("kind") == "history":
        case = {k: v for k, v in case.items() if k not in ("fn", "oil")}
    return dispatch(case)["violations"]
