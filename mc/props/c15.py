"""C15 - multiphase pseudopressure is the pressure integral of the documented total mobility."""

from __future__ import annotations

import itertools
import warnings

import numpy as np

from ..common import REPO, V, samples_of, seed_offset
from ..refmodels import multiphase as mp

KRS = [dict(exps=(1.0, 1.0, 1.0), res=(0.0, 0.1, 0.0), ends=(1.0, 1.0, 1.0)),
       dict(exps=(2.0, 1.5, 3.0), res=(0.1, 0.1, 0.05), ends=(0.9, 0.4, 1.0)),
       dict(exps=(3.7, 2.0, 1.5), res=(0.2, 0.1, 0.0), ends=(1.0, 1.0, 0.6)),
       dict(exps=(1.0, 6.0, 2.0), res=(0.0, 0.1, 0.1), ends=(0.5, 1.0, 1.0)),
       # mobile water (Sw above its residual): the water term of the mobility is non-zero
       dict(exps=(2.0, 1.5, 2.0), res=(0.1, 0.1, 0.05), ends=(0.9, 0.7, 1.0), sw=0.3),
       # a span where NO phase flows (gas end-point 0, oil immobile below So = 0.6): the integral is flat there
       dict(exps=(2.0, 2.0, 2.0), res=(0.6, 0.1, 0.0), ends=(1.0, 1.0, 0.0)),
       # exponent 6 just above residual oil, no gas flow: total mobility of 1e-12 .. 1e-9 over a run of rows - tiny, positive
       dict(exps=(6.0, 2.0, 2.0), res=(0.6, 0.1, 0.0), ends=(1.0, 1.0, 0.0))]
RHOS = [{"rho_o0": 141.5 / (45 + 131.5), "rho_g0": 1.03e-3, "rho_w0": 1.0},
        {"rho_o0": 52.0, "rho_g0": 0.06, "rho_w0": 63.0}]


def shipped_table(from_zero=False):
    """The shipped oil + water tables merged as in the repository's own test fixture."""
    import pandas as pd  # noqa: PLC0415

    d = REPO / "tests" / "data"
    oil = pd.read_csv(d / "pvt_oil.csv")
    wat = pd.read_csv(d / "pvt_water.csv").rename(columns={"T": "temperature", "P": "pressure", "Viscosity": "mu_w"})
    df = wat.drop(columns=["temperature"]).merge(
        oil.rename(columns={"T": "temperature", "P": "pressure", "Oil_Viscosity": "mu_o", "Gas_Viscosity": "mu_g",
                            "Rso": "Rs"}), on="pressure").assign(Rv=0)
    df["So"] = (1 - 0.1) / ((df["Rs"].max() - df["Rs"]) * df["Bg"] / df["Bo"] / 5.61458 + 1)
    if not from_zero:  # the p = 0 row is kept only for the storage coefficient (C16)
        df = df[df["pressure"] >= 10].reset_index(drop=True)
    return df


def get_table(case):
    if case["family"] in ("shipped", "shipped0"):
        df = shipped_table(from_zero=case["family"] == "shipped0")
        return {k: df[k].to_numpy(dtype=float) for k in ["pressure", "pseudopressure", "So"] + mp.PROPS}
    return mp.table(case["family"], mp.grid(case["grid"], case.get("seed", 0)))


def trapezoid_cum(y, x):
    return np.concatenate([[0.0], np.cumsum(0.5 * (y[1:] + y[:-1]) * np.diff(x))])


def evaluate(case):
    from bluebonnet.flow import flowproperties as fp  # noqa: PLC0415

    tb = get_table(case)
    p, So = tb["pressure"], tb["So"]
    krt = mp.kr_table(**KRS[case["kr"]])
    if So.max() > krt["So"].max():  # the table's oil saturations must lie inside the rel-perm table
        return {"violations": [], "evals": 0, "outcome": "n/a"}
    rho = {k: v * case["factor"] for k, v in RHOS[case["rho"]].items()}
    pvt, kr = mp.interp_pvt(tb, rho), mp.interp_kr(krt)
    snap = {k: v.copy() for k, v in tb.items()}
    m = np.asarray(fp.pseudopressure_threephase(p, So, pvt, kr), dtype=float)
    viol = []
    lam = mp.lam_doc(p, So, tb, kr, rho)
    want = trapezoid_cum(lam, p)
    if any(not np.array_equal(tb[k], snap[k]) for k in tb):
        viol.append(V("inputs-modified", "pseudopressure_threephase modified its input arrays", case=case))
    if m.shape != p.shape:
        viol.append(V("shape", f"result shape {m.shape} for {p.shape} pressures", case=case))
        return {"violations": viol, "evals": 1}
    if m[0] != 0:
        viol.append(V("zero-at-first-pressure", f"pseudopressure at the first table pressure = {m[0]!r}", case=case))
    scale = max(abs(want[-1]), 1e-300)
    err = float(np.max(np.abs(m - want)) / scale)
    if not err <= 1e-12:
        k = int(np.argmax(np.abs(m - want)))
        viol.append(V("integral-of-total-mobility", f"pseudopressure differs from the trapezoid integral of the "
                      f"documented total mobility by {err:.3g} of its range (at p={p[k]:.6g}: {m[k]!r} vs {want[k]!r})",
                      case=case, observed=float(m[k]), expected=float(want[k]), tol=1e-12))
    # call history on the SAME pvt / kr function objects: another saturation path, then the first call again
    So_b = np.clip(So * 0.5 + 0.05, 0.0, float(krt["So"].max()))
    m_b = np.asarray(fp.pseudopressure_threephase(p, So_b, pvt, kr), dtype=float)
    want_b = trapezoid_cum(mp.lam_doc(p, So_b, tb, kr, rho), p)
    if not np.max(np.abs(m_b - want_b)) <= 1e-12 * max(abs(want_b[-1]), 1e-300):
        viol.append(V("integral-of-total-mobility/other-So", "a second call on the same PVT / rel-perm functions with other "
                      "saturations does not return the integral for THOSE saturations", case=case))
    m_again = np.asarray(fp.pseudopressure_threephase(p, So, pvt, kr), dtype=float)
    if not np.array_equal(m_again, m):
        viol.append(V("depends-on-call-history", "the first call repeated after a call with other saturations returns "
                      "something else", case=case))
    pos = lam[1:] + lam[:-1] > 0
    if np.any(np.diff(m)[~pos] != 0):
        k = int(np.flatnonzero(~pos & (np.diff(m) != 0))[0])
        viol.append(V("flat-where-immobile", f"pseudopressure changes from p={p[k]:.6g} to {p[k + 1]:.6g} "
                      f"({m[k]!r} -> {m[k + 1]!r}) although the total mobility is exactly 0 on that interval", case=case))
    if np.any(np.diff(m)[pos] <= 0):
        k = int(np.flatnonzero(pos & (np.diff(m) <= 0))[0])
        viol.append(V("strictly-increasing", f"pseudopressure does not increase from p={p[k]:.6g} to {p[k + 1]:.6g} "
                      f"({m[k]!r} -> {m[k + 1]!r}) although total mobility is positive", case=case))
    if case["family"] == "constant":
        exact = lam[0] * (p - p[0])
        if not np.allclose(m, exact, rtol=1e-12, atol=1e-12 * scale):
            viol.append(V("constant-table", f"constant table: pseudopressure is not lambda (p - p0) "
                          f"(max rel diff {np.max(np.abs(m - exact)) / scale:.3g})", case=case))
    # scaling with a constant factor applied to mobility
    rho1 = {k: v / case["factor"] for k, v in rho.items()}
    m1 = np.asarray(fp.pseudopressure_threephase(p, So, mp.interp_pvt(tb, rho1), kr), dtype=float)
    if not np.allclose(m, case["factor"] * m1, rtol=1e-12, atol=1e-13 * scale):
        viol.append(V("scales-with-mobility-factor", f"multiplying mobility by {case['factor']} does not multiply "
                      "the pseudopressure by the same factor", case=case))
    # ... and with the factor in the viscosities instead (another unit system: Pa s instead of cp, or smaller still)
    for f_mu in (1e-3, 1e-7):
        tb_u = dict(tb)
        for k_ in ("mu_o", "mu_g", "mu_w"):
            tb_u[k_] = tb[k_] * f_mu
        m_u = np.asarray(fp.pseudopressure_threephase(p, So, mp.interp_pvt(tb_u, rho), kr), dtype=float)
        if not np.allclose(m_u * f_mu, m, rtol=1e-12, atol=1e-13 * scale):
            viol.append(V("scales-with-mobility-factor/viscosity-units", f"dividing mobility by {f_mu} through the viscosities "
                          f"(another unit system) does not scale the pseudopressure accordingly (max rel diff "
                          f"{np.max(np.abs(m_u * f_mu - m)) / scale:.3g})", case=case))
            break
    # the same PVT / rel-perm functions evaluated on ANOTHER pressure grid with the table's length and end points
    # (only the interior differs): the integral is over the grid that was passed
    pf_ = np.asarray(p, dtype=float)
    p2 = pf_[0] + (pf_[-1] - pf_[0]) * np.linspace(0.0, 1.0, len(pf_)) ** 2
    p2[-1] = pf_[-1]
    So2 = np.interp(p2, pf_, So)
    tb2 = {k_: np.interp(p2, pf_, tb[k_]) for k_ in mp.PROPS}
    m2 = np.asarray(fp.pseudopressure_threephase(p2, So2, pvt, kr), dtype=float)
    want2 = trapezoid_cum(mp.lam_doc(p2, So2, tb2, kr, rho), p2)
    if m2.shape != want2.shape or not np.max(np.abs(m2 - want2)) <= 1e-11 * max(abs(want2[-1]), 1e-300):
        viol.append(V("integral-of-total-mobility/other-grid", "called on another pressure grid with the table's length and end "
                      "points, the result is not the integral of total mobility over THAT grid (max diff "
                      f"{(np.max(np.abs(m2 - want2)) / max(abs(want2[-1]), 1e-300)) if m2.shape == want2.shape else 'shape'} of the range)",
                      case=case))
    # the scaled pseudopressure of the wrapper built from it
    key = None
    if lam.min() > 0:
        tbf = dict(tb)
        snap_in = {k: np.array(v, copy=True) for k, v in tb.items()}
        i_node = int(0.8 * len(p))
        n_ = len(p)
        # initial pressure at / between nodes in the body of the table, in the FIRST cell (the pseudopressure is 0 at
        # the first row), at the second node, in the last cell and at the last node
        spots = [(i_node, True), (i_node, False), (0, False), (1, True), (n_ - 2, False), (n_ - 1, True)]
        for i_node, on_node in spots:
            p_i = float(p[i_node]) if on_node else float(0.5 * (p[i_node] + p[i_node + 1]))
            first = (i_node, on_node) == spots[0]
            with warnings.catch_warnings(), np.errstate(all="ignore"):
                warnings.simplefilter("ignore")
                try:
                    krt_in = {k: v[::-1].copy() for k, v in krt.items()} if case.get("kr_desc") else krt
                    if case.get("helper_kr"):  # the library's own two-phase helper builds the rel-perm table
                        K = KRS[case["kr"]]
                        prm = fp.RelPermParams(n_o=K["exps"][0], n_w=K["exps"][1], n_g=K["exps"][2], S_or=K["res"][0],
                                               S_wc=K["res"][1], S_gc=K["res"][2], k_ro_max=K["ends"][0],
                                               k_rw_max=K["ends"][1], k_rg_max=K["ends"][2])
                        krt_in = fp.relative_permeabilities_twophase(prm, 0.1)
                    fl = fp.FlowPropertiesTwoPhase.from_table(tbf, krt_in, rho, 0.1, KRS[case["kr"]].get("sw", 0.1), p_i)
                    if first:
                        # the reference densities are a MAPPING: the same three entries listed water-first give the same object
                        rho_w_first = {k: rho[k] for k in ("rho_w0", "rho_g0", "rho_o0")}
                        fl_o = fp.FlowPropertiesTwoPhase.from_table(tbf, krt_in, rho_w_first, 0.1, KRS[case["kr"]].get("sw", 0.1), p_i)
                        if not np.array_equal(np.asarray(fl_o.pvt_props["m-scaled"], dtype=float), np.asarray(fl.pvt_props["m-scaled"], dtype=float)):
                            viol.append(V("from_table/density-mapping-order", "from_table with the reference densities listed in another key "
                                          "order (water first) tabulates another pseudopressure: the densities are taken by position, not by name",
                                          case=case))
                except Exception as e:  # noqa: BLE001
                    viol.append(V("from_table/raises", f"{type(e).__name__}: {e}", case=case))
                    break
            ms = np.asarray(fl.pvt_props["m-scaled"], dtype=float)
            m_i = float(fl.m_i)
            # the wrapper's pseudopressure must be the same integral (row order of the rel-perm table is free)
            with np.errstate(all="ignore"):
                ratio = ms[1:] / want[1:]
            if not np.allclose(ratio, ratio[len(ratio) // 2], rtol=1e-9, atol=0):
                viol.append(V("from_table/pseudopressure-is-the-integral", "scaled pseudopressure of from_table is not "
                              "proportional to the integral of the documented total mobility"
                              + (" when the rel-perm table is listed by descending So" if case.get("kr_desc") else ""),
                              case=case))
                break
            if not np.all(np.diff(ms) > 0):
                viol.append(V("from_table/m-scaled-increasing", "scaled pseudopressure from from_table is not "
                              f"strictly increasing (min step {np.diff(ms).min():.3g})", case=case))
                break
            dense = np.unique(np.concatenate([p[1:], p[1:-1] + 0.3 * np.diff(p[1:]), p[1:-1] + 0.7 * np.diff(p[1:])]).astype(float))
            md = np.asarray(fl.m_scaled_func(dense), dtype=float)
            if not np.all(np.diff(md) > 0):
                viol.append(V("from_table/m_scaled_func-increasing", "m_scaled_func of from_table is not strictly increasing "
                              "between table nodes (two interior points of every cell)", case=case))
                break
            if on_node and not abs(m_i - 1) <= 1e-12:
                viol.append(V("from_table/m_i", f"m_i = {m_i!r} at a table node, expected 1", case=case))
            if not on_node:
                a_, b_ = want[i_node], want[i_node + 1]
                with np.errstate(all="ignore"):  # (la + (1-l)b)(l/a + (1-l)/b) <= 1 + (b-a)^2/(4ab); a = 0 in the first cell
                    bound = (b_ - a_) ** 2 / (4 * a_ * b_) if a_ > 0 else np.inf
                if not 1 - 1e-12 <= m_i <= 1 + bound * (1 + 1e-9) + 1e-12:
                    viol.append(V("from_table/m_i", f"m_i = {m_i!r} for p_i={p_i:.6g} between nodes {i_node} and {i_node + 1}, "
                                  f"expected within [1, 1 + {bound:.3g}]", case=case))
            if any(not np.array_equal(tbf[k], snap_in[k]) for k in snap_in) or set(tbf) != set(snap_in):
                viol.append(V("from_table/caller-table-modified", "from_table modified the caller's table", case=case))
            # the object's own table keeps the (unscaled) mobility integral next to the scaled column
            if "pseudopressure" in fl.pvt_props and first:
                m_kept = np.asarray(fl.pvt_props["pseudopressure"], dtype=float)
                if not np.allclose(m_kept, want, rtol=1e-10, atol=1e-12 * np.max(np.abs(want))):
                    viol.append(V("from_table/stored-pseudopressure", "the `pseudopressure` column of the object built by from_table is not "
                                  "the integral of the documented mobility (e.g. it was overwritten by the scaled column)", case=case))
                break
            for frac in (0.0, 0.3, 0.999):
                p_f = p[0] + frac * (p_i - p[0])
                v = float(fl.m_scaled_func(p_f))
                if frac == 0.0 and v != 0.0:
                    viol.append(V("from_table/zero-at-first-pressure", f"m_scaled_func(first table pressure) = {v!r}", case=case))
                    break
                if not 0 <= v < 1:
                    viol.append(V("from_table/fracface-in-unit-interval", f"m_scaled_func(p_f={p_f:.6g}) = {v!r} for "
                                  f"p_i={p_i:.6g}: not in [0, 1)", case=case, observed=v))
                    break
        # history: the caller edits a column of the SAME table object in place and builds again - the new wrapper follows
        # the edited table (nothing keyed on the object's identity may be reused)
        if not viol and not case.get("helper_kr"):
            keep_mu = (tbf["mu_o"], tbf["mu_g"])
            tbf["mu_o"] = np.asarray(tbf["mu_o"], dtype=float) * 1.7  # (same dict object, new column values)
            tbf["mu_g"] = np.asarray(tbf["mu_g"], dtype=float) * 0.6
            krt_in2 = {k: v[::-1].copy() for k, v in krt.items()} if case.get("kr_desc") else krt
            tb2 = dict(tb, mu_o=tbf["mu_o"], mu_g=tbf["mu_g"])
            want2 = trapezoid_cum(mp.lam_doc(p, So, tb2, kr, rho), p)
            with warnings.catch_warnings(), np.errstate(all="ignore"):
                warnings.simplefilter("ignore")
                fl2 = fp.FlowPropertiesTwoPhase.from_table(tbf, krt_in2, rho, 0.1, KRS[case["kr"]].get("sw", 0.1), float(p[int(0.8 * len(p))]))
            ms2 = np.asarray(fl2.pvt_props["m-scaled"], dtype=float)
            with np.errstate(all="ignore"):
                ratio2 = ms2[1:] / want2[1:]
            if not np.allclose(ratio2, ratio2[len(ratio2) // 2], rtol=1e-9, atol=0):
                viol.append(V("from_table/after-in-place-edit", "after the caller changed the viscosity columns of the same table "
                              "object in place, from_table still tabulates the pseudopressure of the old table", case=case))
            tbf["mu_o"], tbf["mu_g"] = keep_mu
        key = (case["family"], case.get("grid"), case["kr"], case["rho"])
    return {"violations": viol[:4], "evals": 1, "outcome": case["family"], "key": key,
            "nontrivial": bool(np.ptp(lam) > 0 or case["family"] == "constant")}


def cases(tier, seed):
    fams = ["constant", "invB-linear", "kinked", "vaporised"]
    grids = ["uniform", "geometric", "irregular", "integer"]
    out = [{"family": "shipped", "grid": "shipped", "kr": k, "rho": r, "factor": f}
           for k, r, f in itertools.product(range(len(KRS)), range(len(RHOS)), [1.0, 7.0])]
    out += [{"family": "shipped", "grid": "shipped", "kr": k, "rho": 0, "factor": 1.0, "helper_kr": True} for k in (1, 2)]
    for fam, g, k, r, f in itertools.product(fams, grids, range(len(KRS)), range(len(RHOS)), [1.0, 7.0]):
        out.append({"family": fam, "grid": g, "kr": k, "rho": r, "factor": f, "seed": seed})
        if f == 1.0 and g == "uniform":
            out.append({"family": fam, "grid": g, "kr": k, "rho": r, "factor": f, "seed": seed, "kr_desc": True})
            if k in (1, 2):  # residual oil / gas saturations > 0
                out.append({"family": fam, "grid": g, "kr": k, "rho": r, "factor": f, "seed": seed, "helper_kr": True})
    # mobility factors of 1e-9 and 1e9 (units, or a nearly immobile system): nothing may be treated as "negligible"
    out += [dict(c, factor=f) for c in out if c["factor"] == 7.0 and c["grid"] in ("shipped", "uniform") and c["rho"] == 0
            for f in (1e-9, 1e9)]
    if seed:
        f = round(0.5 + 20 * seed_offset(seed), 3)
        out += [dict(c, factor=f) for c in out if c["factor"] == 7.0 and c["kr"] == 1]
    return out


def run(ctx):
    cs = cases(ctx.tier, ctx.seed)
    res = ctx.pmap(evaluate, cs)
    cov = {
        "evaluations": len(cs),
        "distinct_nontrivial": len({tuple(r["key"]) for r in res if r.get("key")}),
        "rule": "every (PVT family | shipped oil+water table) x pressure grid x rel-perm set x reference-density "
                "set x mobility factor; non-trivial = distinct combination with positive total mobility everywhere "
                "(so that the from_table clauses apply too)",
        "samples": samples_of(cs),
    }
    return ctx.finish("exploration", cov, [
        "documented total mobility as transcribed in refmodels/multiphase.py; the harness integrates it with its "
        "own trapezoid rule on the table's grid",
    ])


def replay(case):
    return evaluate(case)["violations"]
