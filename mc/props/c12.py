"""C12 - black-oil correlations: continuity at the bubble point, monotone ordering on both
sides, GOR inverts the bubble-point correlation, positivity."""

from __future__ import annotations

import itertools

import numpy as np

from ..common import V, samples_of, seed_offset

CONT_TOL = 1e-13  # at the neighbouring floats of p_b (measured 2e-15); plus 20 x the relative distance from p_b


def cases(tier, seed):
    Ts = [80.0, 150.0, 200.0, 275.0, 350.0]
    apis = [12.0, 20.0, 35.0, 45.0, 55.0]
    gs = [0.56, 0.8, 1.0, 1.3]
    gors = [20.0, 100.0, 650.0, 1500.0, 2500.0]
    if tier == "thorough":
        Ts += [110.0, 240.0, 310.0]
        apis += [16.0, 28.0, 40.0, 50.0]
        gs += [0.65, 0.9, 1.15]
        gors += [50.0, 300.0, 1000.0, 2000.0]
    if seed:
        off = seed_offset(seed)
        Ts.append(round(80 + 270 * off, 2))
        apis.append(round(12 + 43 * ((off * 3) % 1), 2))
        gors.append(round(20 + 2480 * ((off * 5) % 1), 1))
    n = 80 if tier == "thorough" else 40
    return [{"T": T, "api": a, "g": g, "gor": r, "n": n} for T, a, g, r in itertools.product(Ts, apis, gs, gors)]


def evaluate(case):
    from bluebonnet.fluids import oil  # noqa: PLC0415

    T, api, g, gor, n = case["T"], case["api"], case["g"], case["gor"], case["n"]
    args = (api, g, gor)
    pb = float(oil.pressure_bubblepoint_Standing(T, api, g, gor))
    if not pb > 50:
        return {"violations": [], "outcome": "p_b<=50", "evals": 0}
    fns = {
        "R_s": lambda p: oil.solution_gor_Standing(T, p, *args),
        "B_o": lambda p: oil.b_o_Standing(T, p, *args),
        "rho_o": lambda p: oil.density_Standing(T, p, *args),
        "mu_o": lambda p: oil.viscosity_beggs_robinson(T, p, *args),
    }
    viol = []
    # ---- continuity at the bubble point --------------------------------------------------
    near = [pb * (1 - 1e-9), pb * (1 + 1e-9)]
    x = pb
    for _ in range(4):
        x = np.nextafter(x, 0.0)
        near.append(float(x))
    x = pb
    for _ in range(4):
        x = np.nextafter(x, np.inf)
        near.append(float(x))
    for name, f in fns.items():
        at = float(f(pb))
        for q in near:
            v = float(f(q))
            tol_q = CONT_TOL + 20 * abs(q / pb - 1)  # the functions' own slope: |dln f/dln p| <= ~3 (measured 2.2e-9 at 1e-9)
            if not (np.isfinite(v) and abs(v - at) <= tol_q * abs(at)):
                viol.append(V(f"continuity/{name}", f"{name} jumps at the bubble point {pb:.9g}: {v!r} at p={q!r} "
                              f"vs {at!r} at p_b ({abs(v / at - 1):.3g} relative, allowed {tol_q:.3g})", case=case,
                              observed=v, expected=at, tol=tol_q))
                break
    below = np.linspace(15.0, pb, n + 1)[:-1] if pb > 15 else np.array([])
    # the last psi below the bubble point (a 'snap to the bubble point' tolerance would flatten it)
    below = np.unique(np.concatenate([below, pb - np.array([0.9, 0.5, 0.1, 0.01, 1e-4])]))
    below = below[(below >= 15.0) & (below < pb)]
    above = np.linspace(pb, 2.5 * pb, n + 1)
    # the first psi above the bubble point (a dead band there would keep B_o flat instead of falling)
    above = np.unique(np.concatenate([above, pb * (1 + 1e-9) * np.ones(1), pb + np.array([1e-4, 0.01, 0.1, 0.5, 0.9])]))
    rs_b = np.array([fns["R_s"](p) for p in below], dtype=float)
    rs_a = np.array([fns["R_s"](p) for p in above], dtype=float)
    if not np.all(rs_a == gor):
        viol.append(V("R_s/initial-above", f"solution GOR at/above the bubble point is not the initial GOR "
                      f"{gor}: {rs_a[rs_a != gor][:3]}", case=case))
    if rs_b.size:
        if not np.all(np.diff(np.concatenate([rs_b, rs_a[:1]])) >= 0):
            viol.append(V("R_s/non-decreasing", "solution GOR decreases with pressure below the bubble point", case=case))
        if not rs_b.max() <= gor * (1 + 1e-12):
            viol.append(V("R_s/bounded", f"solution GOR {rs_b.max()!r} exceeds the initial GOR {gor}", case=case))
        inv = np.array([oil.pressure_bubblepoint_Standing(T, api, g, r) for r in rs_b], dtype=float)
        err = np.max(np.abs(inv - below))
        if not err <= 1e-8 * pb:
            k = int(np.argmax(np.abs(inv - below)))
            viol.append(V("R_s/inverts-bubble-point", f"p_b(R_s(p)) = {inv[k]!r} for p = {below[k]!r} "
                          f"(error {err:.3g}, allowed {1e-8 * pb:.3g})", case=case, observed=float(inv[k]),
                          expected=float(below[k]), tol=1e-8 * pb))
        bo_b = np.array([fns["B_o"](p) for p in below] + [fns["B_o"](pb)], dtype=float)
        if not np.all(np.diff(bo_b) > 0):
            k = int(np.argmin(np.diff(bo_b)))
            viol.append(V("B_o/rising-below", f"B_o does not rise from p={below[k]:.6g} to the next pressure below "
                          f"the bubble point ({bo_b[k]!r} -> {bo_b[k + 1]!r})", case=case))
        mu_b = np.array([fns["mu_o"](p) for p in below] + [fns["mu_o"](pb)], dtype=float)
        if not (np.all(np.isfinite(mu_b)) and np.all(mu_b > 0)):
            viol.append(V("mu_o/positive", "oil viscosity below the bubble point is not positive and finite", case=case))
        elif not np.all(np.diff(mu_b) < 0):
            k = int(np.argmax(np.diff(mu_b)))
            viol.append(V("mu_o/falling-below", f"oil viscosity does not fall from p={below[k]:.6g} to the next "
                          f"pressure ({mu_b[k]!r} -> {mu_b[k + 1]!r})", case=case))
    bo_a = np.array([fns["B_o"](p) for p in above], dtype=float)
    if not np.all(np.diff(bo_a) < 0):
        k = int(np.argmax(np.diff(bo_a)))
        viol.append(V("B_o/falling-above", f"B_o does not fall from p={above[k]:.6g} to {above[k + 1]:.6g} above the "
                      f"bubble point ({bo_a[k]!r} -> {bo_a[k + 1]!r})", case=case))
    co = np.array([oil.oil_compressibility_undersat_Spivey(T, p, *args) for p in above], dtype=float)
    mu_a = np.array([fns["mu_o"](p) for p in above], dtype=float)
    if not (np.all(np.isfinite(co)) and np.all(co > 0)):
        viol.append(V("c_o/positive", f"undersaturated compressibility not positive/finite: min {np.nanmin(co)!r}",
                      case=case))
    if not (np.all(np.isfinite(mu_a)) and np.all(mu_a > 0)):
        viol.append(V("mu_o/positive", "oil viscosity above the bubble point is not positive and finite", case=case))
    # the other public undersaturated correlation (Standing's), below its own pole at p - p_b = 18 118 psi
    for p_ in above[(above > pb) & (above - pb <= 15000.0)][:: max(1, n // 10)]:
        try:
            cs_ = float(oil.oil_compressibility_undersat_Standing(T, float(p_), *args))
        except Exception as e:  # noqa: BLE001
            viol.append(V("c_o/standing-raises", f"oil_compressibility_undersat_Standing(T={T}, p={p_:.6g}) raises "
                          f"{type(e).__name__}: {e}", case=case))
            break
        if not (np.isfinite(cs_) and cs_ > 0):
            viol.append(V("c_o/standing-positive", f"oil_compressibility_undersat_Standing(T={T}, p={p_:.6g}) = {cs_!r}", case=case))
            break
    # the array forms of the same functions on ONE array that straddles the bubble point (all points used above):
    # every element equals the scalar call (a mask with a tolerance, or a snap to p_b, shows up just below p_b)
    if rs_b.size:
        both = np.concatenate([below, above])
        for name, fa in (("R_s", oil.solution_gor_Standing), ("B_o", oil.b_o_Standing), ("rho_o", oil.density_Standing)):
            try:
                got = np.asarray(fa(T, both.copy(), *args), dtype=float)
            except Exception as e:  # noqa: BLE001
                viol.append(V(f"array/{name}", f"{name} on an array straddling the bubble point raises {type(e).__name__}: {e}",
                              case=case))
                continue
            ref = np.array([float(fns[name](float(q))) for q in both])
            bad = ~(np.abs(got - ref) <= 64 * np.finfo(float).eps * np.abs(ref))
            if got.shape != ref.shape or bad.any():
                k = int(np.flatnonzero(bad)[0]) if got.shape == ref.shape else 0
                viol.append(V(f"array/{name}", f"{name} evaluated on an array differs from the scalar call at p={both[k]!r} "
                              f"(p_b={pb!r}): {got[k] if got.shape == ref.shape else got.shape!r} vs {ref[k]!r}", case=case))
    return {"violations": viol, "outcome": "oil", "evals": len(below) + len(above) + len(near) * 4,
            "key": (T, api, g, gor)}


def dispatch(case):
    return eval_history(case) if case.get("kind") == "history" else evaluate(case)


def eval_history(case):
    """Oils that share all parameters but one, evaluated in three call orders in one process: the
    correlations are pure functions, so every value must be independent of what was evaluated before."""
    from bluebonnet.fluids import oil  # noqa: PLC0415

    from ..common import purity_violations  # noqa: PLC0415

    T, api, g, gor = case["base"]
    oils = [(T, api, g, gor), (T + 40, api, g, gor), (T, api + 9, g, gor), (T, api, g + 0.3, gor), (T, api, g - 0.15, gor),
            (T, api, g, gor * 1.7)]
    calls = []
    for o in oils:
        pb = float(oil.pressure_bubblepoint_Standing(*o))
        for p in (0.4 * pb, 0.9 * pb, pb, 1.6 * pb, 1500.0):
            args = (o[0], p, o[1], o[2], o[3])
            O = "bluebonnet.fluids.oil:"
            calls += [("viscosity_beggs_robinson", O + "viscosity_beggs_robinson", args),
                      ("solution_gor_Standing", O + "solution_gor_Standing", args),
                      ("b_o_Standing", O + "b_o_Standing", args), ("density_Standing", O + "density_Standing", args)]
        calls.append(("pressure_bubblepoint_Standing", "bluebonnet.fluids.oil:pressure_bubblepoint_Standing", o))
    viol = purity_violations(calls)
    for v in viol:
        v["case"] = dict(case, call=v["case"])
    return {"violations": viol[:3], "outcome": "history", "evals": 3 * len(calls)}


def run(ctx):
    cs = cases(ctx.tier, ctx.seed)
    cs += [{"kind": "history", "base": b} for b in ([200.0, 35.0, 0.8, 650.0], [120.0, 20.0, 0.7, 150.0],
                                                     [320.0, 50.0, 1.1, 2000.0])]
    res = ctx.pmap(dispatch, cs)
    cov = {
        "evaluations": sum(r.get("evals", 0) for r in res),
        "distinct_nontrivial": sum(1 for r in res if r.get("key")),
        "rule": "complete T x API x gas gravity x GOR lattice; per oil 10 pressures within 4 ulp / 1e-9 of the "
                "bubble point and n below / n above up to 2.5 p_b; non-trivial = oil with bubble point > 50 psia",
        "samples": samples_of(cs),
        "oils_with_low_bubble_point_skipped": sum(1 for r in res if r.get("outcome") == "p_b<=50"),
    }
    return ctx.finish("exploration", cov, ["continuity tolerance 1e-13 + 20 x relative distance from p_b; inverse relation 1e-8 p_b",
                                            "oil_compressibility_undersat_Standing is only demanded below its pole at p - p_b = 18 118 psi "
                                            "(the correlation's own singularity; b_o_Standing uses Spivey's correlation)"])


def replay(case):
    case = {k: v for k, v in case.items() if k != "call"}
    return dispatch(case)["violations"]
