"""Shared plumbing: binding to the code under test, parallel exhaustive map,
violation records, known-finding classification, replay files and evidence.

Nothing here samples: `Ctx.pmap` runs *every* case it is handed and re-sorts the
results by case index, so verdict and evidence never depend on scheduling.
"""

from __future__ import annotations

import hashlib
import json
import math
import multiprocessing as mp
import os
import signal
import sys
import time
import traceback
from pathlib import Path

VERIF = Path(__file__).resolve().parent.parent
REPO = Path(os.environ.get("VERIF_REPO", "/repo")).resolve()
NPROC = int(os.environ.get("VERIF_NPROC", "16"))
GOLDEN = 0.6180339887498949


def bind():
    """Import bluebonnet from $VERIF_REPO/src (default /repo/src) and prove it."""
    src = str(REPO / "src")
    if sys.path[0] != src:
        sys.path.insert(0, src)
    import bluebonnet  # noqa: PLC0415

    where = Path(bluebonnet.__file__).resolve()
    if not str(where).startswith(src + os.sep):
        raise SystemExit(f"bound to {where}, expected a module under {src}")
    return bluebonnet


def seed_offset(seed: int) -> float:
    """Deterministic in-cell shift of the secondary lattice copy (DESIGN 2.4)."""
    return (seed * GOLDEN) % 1.0


class LCG:
    """Fixed linear congruential generator: the 'irregular' grids are enumerated,
    reproducible objects that depend on VERIF_SEED only, not random samples."""

    def __init__(self, seed: int):
        self.s = (seed * 2654435761 + 12345) % (2**32)

    def next(self) -> float:
        self.s = (1664525 * self.s + 1013904223) % (2**32)
        return self.s / 2**32


def jsonable(x):
    import numpy as np  # noqa: PLC0415

    if isinstance(x, dict):
        return {str(k): jsonable(v) for k, v in x.items()}
    if isinstance(x, (list, tuple)):
        return [jsonable(v) for v in x]
    if isinstance(x, np.ndarray):
        if x.size > 64:
            return {"ndarray": list(x.shape), "dtype": str(x.dtype),
                    "head": jsonable(x.ravel()[:8].tolist())}
        return jsonable(x.tolist())
    if isinstance(x, (np.floating,)):
        x = float(x)
    if isinstance(x, (np.integer,)):
        return int(x)
    if isinstance(x, (np.bool_,)):
        return bool(x)
    if isinstance(x, float):
        if math.isnan(x):
            return "nan"
        if math.isinf(x):
            return "inf" if x > 0 else "-inf"
        return x
    if isinstance(x, (str, int, bool)) or x is None:
        return x
    return repr(x)


class CaseTimeout(BaseException):
    """Not an Exception on purpose: `except Exception` in a check must not swallow it."""


class alarm:
    """Per-case alarm: a hang becomes a reported violation.  The budget is CPU time of this process
    (ITIMER_PROF), so a loaded machine does not turn a slow case into an alarm; a wall-clock backstop of
    20 x the budget (at least 60 s) covers waits that burn no CPU."""

    def __init__(self, seconds: float):
        self.seconds = seconds

    def _raise(self, *_):
        raise CaseTimeout(f"no result after {self.seconds}s of CPU time")

    def __enter__(self):
        self.old = (signal.signal(signal.SIGPROF, self._raise), signal.signal(signal.SIGALRM, self._raise))
        # alarms nest (a check may bound a single library call inside the per-case budget): remember what was left
        self.left = (signal.setitimer(signal.ITIMER_PROF, self.seconds)[0],
                     signal.setitimer(signal.ITIMER_REAL, max(60.0, 20 * self.seconds))[0])

    def __exit__(self, *exc):
        signal.setitimer(signal.ITIMER_PROF, 0)
        signal.setitimer(signal.ITIMER_REAL, 0)
        signal.signal(signal.SIGPROF, self.old[0])
        signal.signal(signal.SIGALRM, self.old[1])
        if self.left[0] > 0:
            signal.setitimer(signal.ITIMER_PROF, self.left[0])
        if self.left[1] > 0:
            signal.setitimer(signal.ITIMER_REAL, self.left[1])
        return False


def V(oracle, msg, case=None, observed=None, expected=None, tol=None, signature=None):
    """One violation record (plain dict so that it crosses process boundaries)."""
    return {"oracle": oracle, "msg": msg, "case": jsonable(case), "observed": jsonable(observed),
            "expected": jsonable(expected), "tol": jsonable(tol), "signature": signature}


_WORK_FN = None
_HANGS = None  # shared counter of cases that did not terminate (set per pool)


def _init_worker(fn_module, fn_name, hangs=None):
    global _WORK_FN, _HANGS
    _HANGS = hangs
    bind()
    mod = __import__(fn_module, fromlist=[fn_name])
    _WORK_FN = getattr(mod, fn_name)


# CPU-time budget per case: the slowest quick case costs ~10 s, the slowest thorough one ~40 s (C02, 25 600 levels x 3
# ladders); a correct but several times slower refactor must not look like a hang
CASE_TIMEOUT = float(os.environ.get("VERIF_CASE_TIMEOUT", "150"))
MAX_HANGS = 6


def _run_one(args):
    idx, case = args
    if _HANGS is not None and _HANGS.value >= MAX_HANGS:
        # enough cases did not terminate (each one is a reported violation): the rest of this worker's chunk is not
        # sat out - the run is reported as capped
        return idx, {"violations": [], "not_run": True}
    try:
        with alarm(CASE_TIMEOUT):
            return idx, _WORK_FN(case)
    except CaseTimeout:
        if _HANGS is not None:
            with _HANGS.get_lock():
                _HANGS.value += 1
        return idx, {"hang": True, "violations": [V(
            "harness/case-did-not-terminate",
            f"the library did not finish this case within {CASE_TIMEOUT:.0f} s of CPU time (normal cost: milliseconds "
            "to seconds)", case=case)]}
    except Exception as e:  # an unexpected exception in the harness or library is never silent
        return idx, {"violations": [V("harness/unexpected-exception",
                                      f"{type(e).__name__}: {e}", case=case,
                                      observed=traceback.format_exc()[-1500:])]}


class Ctx:
    def __init__(self, prop: str, tier: str, seed: int):
        global CASE_TIMEOUT
        if tier == "thorough" and "VERIF_CASE_TIMEOUT" not in os.environ:
            CASE_TIMEOUT = 900.0  # (set before the pool forks: workers inherit it)
        self.prop, self.tier, self.seed = prop, tier, seed
        self.t0 = time.time()
        self.violations: list[dict] = []
        self.outcomes: dict[str, int] = {}
        self.capped = None

    @property
    def thorough(self):
        return self.tier == "thorough"

    # -- exhaustive parallel map ---------------------------------------------------
    def pmap(self, fn, cases, chunksize=None, nproc=None):
        cases = list(cases)
        nproc = min(nproc or NPROC, max(1, len(cases)))
        if nproc == 1 or os.environ.get("VERIF_SERIAL"):
            _init_worker(fn.__module__, fn.__name__)
            out = [_run_one((i, c))[1] for i, c in enumerate(cases)]
        else:
            cs = chunksize or max(1, len(cases) // (nproc * 8))
            ctx = mp.get_context("fork")
            res, hangs = [], 0
            shared = ctx.Value("i", 0)
            with ctx.Pool(nproc, initializer=_init_worker,
                          initargs=(fn.__module__, fn.__name__, shared)) as pool:
                for r in pool.imap_unordered(_run_one, list(enumerate(cases)), chunksize=cs):
                    if r[1].get("not_run"):
                        continue
                    res.append(r)
                    hangs += bool(r[1].get("hang"))
                    if hangs >= MAX_HANGS:  # a hang is already a violation: do not sit out the rest
                        pool.terminate()
                        self.capped = (f"aborted after {hangs} cases that did not terminate; "
                                       f"{len(res)} of {len(cases)} cases completed")
                        break
            res.sort(key=lambda r: r[0])
            done = dict(res)
            out = [done.get(i, {"violations": [], "not_run": True}) for i in range(len(cases))]
        for r in out:
            for v in r.get("violations", ()):
                self.violations.append(v)
            o = r.get("outcome")
            if o is not None:
                for k in (o if isinstance(o, (list, tuple)) else [o]):
                    self.outcomes[str(k)] = self.outcomes.get(str(k), 0) + 1
        return out

    def add(self, vs):
        self.violations.extend(vs)

    # -- verdict ------------------------------------------------------------------
    def finish(self, level: str, coverage: dict, assumptions: list[str]) -> int:
        known = load_known()
        unknown, known_hits = classify(self.prop, self.violations, known)
        for kid, (entry, n) in known_hits.items():
            print(f"KNOWN-FINDING: property={self.prop} {entry['what']} "
                  f"[{kid}; {n} case(s) match its signature]")
        shown = set()
        for v in unknown[:20]:
            path = write_replay(self.prop, v)
            if path in shown:
                continue
            shown.add(path)
            print(f"VIOLATION property={self.prop} replay={path}")
            print(f"  oracle={v['oracle']}: {v['msg']}")
        if len(unknown) > 20:
            print(f"  ... and {len(unknown) - 20} further violating cases (first 20 written)")
        coverage = dict(coverage)
        coverage.setdefault("exhaustive", self.capped is None)
        if self.capped:
            coverage["cap_hit"] = self.capped
        coverage["distinct_outcomes"] = {k: self.outcomes[k] for k in sorted(self.outcomes)[:40]}
        coverage["known_finding_cases"] = {k: n for k, (_, n) in known_hits.items()}
        ev = {
            "property_id": self.prop, "tier": self.tier, "seed": self.seed, "level": level,
            "coverage": jsonable(coverage), "assumptions": assumptions,
            "wall_s": round(time.time() - self.t0, 2), "violations": len(unknown),
            "repo": str(REPO),
        }
        if REPO == Path("/repo"):
            (VERIF / "evidence").mkdir(exist_ok=True)
            (VERIF / "evidence" / f"{self.prop}.json").write_text(json.dumps(ev, indent=1) + "\n")
        else:  # mutant / scratch runs never overwrite the committed evidence
            d = Path(os.environ.get("VERIF_EVIDENCE_DIR", "/tmp/verif-evidence"))
            d.mkdir(parents=True, exist_ok=True)
            (d / f"{self.prop}.json").write_text(json.dumps(ev, indent=1) + "\n")
        summ = {k: coverage[k] for k in ("states", "transitions", "evaluations",
                                         "distinct_nontrivial", "exhaustive") if k in coverage}
        print(f"{self.prop} tier={self.tier} seed={self.seed} {summ} "
              f"violations={len(unknown)} known={sum(n for _, n in known_hits.values())} "
              f"wall={ev['wall_s']}s")
        return 1 if unknown else 0


def load_known():
    p = VERIF / "known_findings.json"
    if not p.exists():
        return []
    return json.loads(p.read_text())["findings"]


def classify(prop, violations, known):
    """Split violations into unknown ones and hits on `known` entries.

    Only entries with status 'known' suppress, and only violations whose signature
    (a mechanism + call site re-derived numerically by the check, never 'any failure')
    equals the entry's signature. 'fixed' entries suppress nothing.
    """
    sigs = {e["signature"]: e for e in known
            if e.get("status") == "known" and e.get("property") == prop}
    unknown, hits = [], {}
    for v in violations:
        e = sigs.get(v.get("signature")) if v.get("signature") else None
        if e is None:
            unknown.append(v)
        else:
            ent, n = hits.get(e["id"], (e, 0))
            hits[e["id"]] = (ent, n + 1)
    return unknown, hits


def write_replay(prop, v) -> str:
    blob = json.dumps({"property": prop, **v}, indent=1, sort_keys=True)
    sha = hashlib.sha1(json.dumps({"c": v["case"], "o": v["oracle"]}, sort_keys=True)
                       .encode()).hexdigest()[:12]
    # runs against another tree (mutants, audits) keep their replays out of /verif
    d = (VERIF if str(REPO) == "/repo" else Path(os.environ.get("VERIF_EVIDENCE_DIR", "/tmp/verif-evidence"))) / "replays" / prop
    d.mkdir(parents=True, exist_ok=True)
    p = d / f"{sha}.json"
    p.write_text(blob + "\n")
    return str(p)


def samples_of(cases, n=3):
    cases = list(cases)
    if not cases:
        return []
    idx = sorted({0, len(cases) // 2, len(cases) - 1})[:n]
    return [jsonable(cases[i]) for i in idx]


def purity_violations(calls, orders=None, what="value"):
    """Pure functions must not depend on call history: evaluate the same list of calls
    [(label, 'module:function', args[, post]), ...] in several orders, EACH ORDER IN A FRESH
    INTERPRETER, and demand equal results per call (to 1e-12 relative: a few ulp).  A memo keyed too coarsely, a hoisted
    scratch buffer or a mutated default shows up as a difference between two orders (within one
    process the first caller would already have populated a module-level memo for all orders)."""
    import pickle  # noqa: PLC0415
    import subprocess  # noqa: PLC0415

    import numpy as np  # noqa: PLC0415

    calls = [tuple(c) + (None,) * (4 - len(c)) for c in calls]
    n = len(calls)
    if orders is None:
        orders = [list(range(n)), list(range(n - 1, -1, -1)),
                  [i for k in range(3) for i in range(k, n, 3)]]
    env = dict(os.environ, VERIF_REPO=str(REPO), PYTHONDONTWRITEBYTECODE="1", MPLBACKEND="Agg")
    results = []
    for order in orders:
        r = subprocess.run([sys.executable, "-W", "ignore", "-m", "mc.purity_worker"], cwd=str(VERIF), env=env,
                           input=pickle.dumps({"calls": calls, "order": order}), capture_output=True, timeout=600)
        if r.returncode != 0:
            return [V("purity/worker-failed", r.stderr.decode()[-400:], case={"order": order[:5]})]
        results.append(pickle.loads(r.stdout))
    out = []

    def differ(vals):
        """More than a few ulp apart (a warm-started root finder may legitimately move a result by an ulp with
        the call order; a memo keyed too coarsely or a stale buffer moves it by orders of magnitude more)."""
        vals = list(vals)
        if len(vals) < 2:
            return False
        if any(v[0] != "ok" for v in vals):
            return True
        arrs = [np.frombuffer(v[1]) for v in vals]
        if any(a.shape != arrs[0].shape for a in arrs):
            return True
        for a in arrs[1:]:
            with np.errstate(all="ignore"):
                ok = (np.abs(a - arrs[0]) <= 1e-12 * np.maximum(np.abs(a), np.abs(arrs[0]))) | (a == arrs[0]) | \
                     (np.isnan(a) & np.isnan(arrs[0]))
            if not np.all(ok):
                return True
        return False

    for i in range(n):
        vals = {r[i] for r in results if i in r}  # (an order may be partial, e.g. a single call on its own)
        if differ(vals):
            label, path, args, _ = calls[i]
            shown = [float(np.frombuffer(v[1])[0]) if v[0] == "ok" and len(v[1]) >= 8 else v for v in vals]
            out.append(V("purity/result-depends-on-call-history",
                         f"{label}{jsonable(args)} returns different {what}s depending on which calls preceded it "
                         f"in the same process: {shown}", case={"call": label, "args": jsonable(args)}, observed=shown))
    return out
