"""Deviation-bounded exploration of environment answers (shape E, CHESS style).

The Krylov solver the library calls is the environment.  The harness intercepts every
iterative entry point of scipy.sparse.linalg *from the harness process*, solves the system
itself (dense LU) and answers according to a recorded choice vector:

  0  exact solution, info = 0                                  (default answer)
  1  exact + delta, ||A delta||_2 = 0.999 * max(rtol ||b||_2, atol), smooth mode, info = 0
  2  same size, alternating mode, info = 0     (1, 2: the *loosest answers the solver's own
     contract allows*, with rtol/atol as requested by the library, scipy defaults if absent)
  3  unconverged iterate, info = maxiter > 0
  4  breakdown, info < 0

`explore` executes the baseline (all zeros), then every run with one deviation, then (bound
2) every run with two, each to completion; replaying a choice vector is deterministic and
an out-of-range or unconsumed choice is a hard error.
"""

from __future__ import annotations

import functools
import warnings

import numpy as np

ITERATIVE = ["bicg", "bicgstab", "cg", "cgs", "gmres", "lgmres", "minres", "qmr", "gcrotmk", "tfqmr"]
LEASTSQ = {"lsqr": 10, "lsmr": 8}  # least-squares iterations: (x, istop, itn, norms...), istop 1/2 = converged, 7 = iteration limit
DIRECT = ["spsolve", "splu", "spilu", "factorized", "spsolve_triangular"]
N_ALT = 5


class ReplayError(RuntimeError):
    pass


class SolverEnv:
    def __init__(self, choices=()):
        self.prefix = list(choices)
        self.points = []  # one entry per intercepted iterative call: dict(name, rtol, atol, n)
        self.taken = []
        self.direct_calls = 0
        self._saved = []

    # ---- the environment's answer ---------------------------------------------------------
    def _answer(self, name, A, b, kw):
        A_d = A.toarray() if hasattr(A, "toarray") else np.asarray(A, dtype=float)
        b = np.asarray(b, dtype=float).ravel()
        rtol = kw.get("rtol", kw.get("tol", 1e-5))
        atol = kw.get("atol", 0.0)
        k = len(self.points)
        choice = self.prefix[k] if k < len(self.prefix) else 0
        if not 0 <= choice < N_ALT:
            raise ReplayError(f"choice {choice} out of range at point {k}")
        self.points.append({"solver": name, "rtol": float(rtol), "atol": float(atol), "n": len(b)})
        self.taken.append(choice)
        x = np.linalg.solve(A_d, b)
        if choice == 0:
            return x, 0
        if choice in (1, 2):
            v = np.ones_like(b) if choice == 1 else (-1.0) ** np.arange(len(b))
            lim = 0.999 * max(float(rtol) * np.linalg.norm(b), float(atol))
            return x + v * (lim / np.linalg.norm(A_d @ v)), 0
        if choice == 3:
            return b.copy(), 10 * len(b)
        return np.zeros_like(b), -10

    def _wrap_iter(self, name):
        def solver(A, b, *args, **kw):
            return self._answer(name, A, b, kw)
        solver.__name__ = name
        return solver

    def _wrap_lsq(self, name, width):
        def solver(A, b, *args, **kw):
            tol = max(float(kw.get("atol", 1e-6)), float(kw.get("btol", 1e-6)))
            x, info = self._answer(name, A, b, {"rtol": tol, "atol": 0.0})
            istop = 1 if info == 0 else 7
            return (x, istop, 1 if info == 0 else 10 * len(x)) + (0.0,) * (width - 3)
        solver.__name__ = name
        return solver

    def _wrap_direct(self, orig):
        def direct(*a, **k):
            self.direct_calls += 1
            return orig(*a, **k)
        return direct

    # ---- installation from the harness side ---------------------------------------------
    def __enter__(self):
        import importlib  # noqa: PLC0415
        import scipy.linalg  # noqa: PLC0415
        import scipy.sparse.linalg as spl  # noqa: PLC0415

        import sys  # noqa: PLC0415

        for m in ("bluebonnet.flow.reservoir", "bluebonnet.flow", "bluebonnet.flow.flowproperties"):
            importlib.import_module(m)
        # every loaded module of the package (a solver imported by name into a helper module is rebound as well)
        mods = [m for k, m in sorted(sys.modules.items()) if m is not None and (k == "bluebonnet" or k.startswith("bluebonnet."))]
        for name in ITERATIVE + list(LEASTSQ) + DIRECT:
            orig = getattr(spl, name, None)
            if orig is None:
                continue
            new = self._wrap_iter(name) if name in ITERATIVE else \
                self._wrap_lsq(name, LEASTSQ[name]) if name in LEASTSQ else self._wrap_direct(orig)
            self._saved.append((spl, name, orig))
            setattr(spl, name, new)
            for m in mods:  # names imported with `from scipy.sparse.linalg import ...`, and module-level partials
                for k, v in list(vars(m).items()):
                    if v is orig:
                        self._saved.append((m, k, orig))
                        setattr(m, k, new)
                    elif isinstance(v, functools.partial) and v.func is orig:
                        self._saved.append((m, k, v))
                        setattr(m, k, functools.partial(new, *v.args, **v.keywords))
        for mod, name in ((scipy.linalg, "solve_banded"), (scipy.linalg, "solveh_banded"),
                          (scipy.linalg, "solve"), (np.linalg, "solve")):
            orig = getattr(mod, name)
            if mod is np.linalg:
                continue  # used by the harness itself; numpy dense solves are counted as direct below
            self._saved.append((mod, name, orig))
            setattr(mod, name, self._wrap_direct(orig))
            for m in mods:
                for k, v in list(vars(m).items()):
                    if v is orig:
                        self._saved.append((m, k, orig))
                        setattr(m, k, getattr(mod, name))
        return self

    def __exit__(self, *exc):
        for mod, name, orig in reversed(self._saved):
            setattr(mod, name, orig)
        self._saved.clear()
        return False


def run_once(body, choices):
    """Execute body() under the environment with the given choice vector.

    Returns dict(points, taken, raised, warned, result, direct_calls)."""
    env = SolverEnv(choices)
    raised, result = None, None
    with warnings.catch_warnings(record=True) as w:
        warnings.simplefilter("always")
        with env:
            try:
                result = body()
            except ReplayError:
                raise
            except Exception as e:  # noqa: BLE001 - a raise is a legitimate, non-silent outcome
                raised = f"{type(e).__name__}: {e}"[:200]
    if len(env.points) < len(choices):
        raise ReplayError(f"choice vector {choices} not consumed: only {len(env.points)} solver calls")
    relevant = [str(x.message)[:120] for x in w
                if not issubclass(x.category, (DeprecationWarning, PendingDeprecationWarning))
                and "hydraulic diffusivity" not in str(x.message)]
    return {"points": env.points, "taken": env.taken, "raised": raised, "warned": relevant,
            "result": result, "direct_calls": env.direct_calls}


def explore(body, bound):
    """All executions with at most `bound` deviations from the default answer.

    Yields (choices, run) for each execution; the first is the baseline."""
    base = run_once(body, [])
    yield [], base
    seen = 1
    frontier = [([], base)]
    for _ in range(bound):
        nxt = []
        for prefix, r in frontier:
            for i in range(len(prefix), len(r["points"])):
                for alt in range(1, N_ALT):
                    ch = list(r["taken"][:i]) + [alt]
                    rr = run_once(body, ch)
                    if rr["taken"][:len(ch)] != ch:
                        raise ReplayError(f"divergence while replaying prefix {ch}")
                    seen += 1
                    yield ch, rr
                    nxt.append((ch, rr))
        frontier = nxt
