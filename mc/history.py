"""Explicit-state breadth-first exploration of call histories on one live object (shape H).

A state *is* a history; it is rebuilt on a fresh object (live objects hold scipy
interpolators that do not copy).  States are merged on a canonical key over the whole
attribute dictionary - sound because every method of the reservoir classes is a function
of vars(obj) and its arguments only (no globals, no caches outside the instance).
"""

from __future__ import annotations

import collections
import hashlib

import numpy as np


def canon_value(v):
    if isinstance(v, np.ndarray):
        a = np.ascontiguousarray(v)
        return ("nd", str(a.dtype), a.shape, hashlib.sha1(a.tobytes()).hexdigest())
    if isinstance(v, (list, tuple)):
        return ("seq", tuple(canon_value(x) for x in v))
    if isinstance(v, dict):
        return ("map", tuple((str(k), canon_value(x)) for k, x in sorted(v.items(), key=lambda kv: str(kv[0]))))
    if isinstance(v, (bool, int, float, complex, str, bytes, type(None), np.generic)):
        return ("py", type(v).__name__, repr(v))
    # any other object (a cached interpolator, say): its type and public content, never its address - a repr that
    # contains id() would keep equal states from merging
    if _depth[0] < 3 and hasattr(v, "__dict__"):
        _depth[0] += 1
        try:
            return ("obj", type(v).__name__, tuple((k, canon_value(x)) for k, x in sorted(vars(v).items())))
        finally:
            _depth[0] -= 1
    return ("obj", type(v).__name__)


_depth = [0]


def canon(obj, skip=("fluid",)):
    return (type(obj).__name__,) + tuple(
        (k, canon_value(v)) for k, v in sorted(vars(obj).items()) if k not in skip)


def same(a, b) -> bool:
    """Bitwise equality of observations (NaN equals NaN, dtype and shape included)."""
    if isinstance(a, np.ndarray) or isinstance(b, np.ndarray):
        a, b = np.asarray(a), np.asarray(b)
        return a.shape == b.shape and a.dtype == b.dtype and np.array_equal(a, b, equal_nan=True)
    if isinstance(a, (tuple, list)) and isinstance(b, (tuple, list)):
        return len(a) == len(b) and all(same(x, y) for x, y in zip(a, b))
    if isinstance(a, float) and isinstance(b, float) and a != a and b != b:
        return True
    return type(a) is type(b) and a == b


def bfs(build, alphabet, check_transition, check_state, max_depth, canon=None):
    canon = canon or globals()["canon"]
    """build(history) -> (obj, observations list); returns counters and violations.

    check_transition(history, op) and check_state(history) return lists of violations.
    """
    obj, _ = build([])
    seen = {canon(obj): ()}
    frontier = collections.deque([()])
    transitions = 0
    viol = []
    depth_reached = 0
    closed = True
    while frontier:
        hist = frontier.popleft()
        viol += check_state(list(hist))
        if len(hist) >= max_depth:
            closed = False  # successors of this state were not expanded
            continue
        for op in alphabet:
            nxt = hist + (op,)
            transitions += 1
            viol += check_transition(list(hist), op)
            o, _ = build(list(nxt))
            k = canon(o)
            if k not in seen:
                seen[k] = nxt
                frontier.append(nxt)
                depth_reached = max(depth_reached, len(nxt))
    # 'closed' must mean: every reachable state had all its successors generated
    return {"states": len(seen), "transitions": transitions, "depth_reached": depth_reached,
            "frontier_closed_before_bound": closed, "representatives": list(seen.values())}, viol
