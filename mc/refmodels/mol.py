"""Independent fine-grid (method of lines) reference for the documented problem

    w_t = a(w) w_xx,  w(x,0) = 1,  w(0,t) = w_f(t),  w_x(1,t) = 0      (docs/background.md)

in the normalised variable w = (m - m_f)/(m_i - m_f) for constant drawdown (w_f = 0), or in
any affine scaling for schedules.  Node-centred grid x_j = j/N with the exact Dirichlet value
at x = 0 and a mirrored ghost at x = 1, integrated by scipy's BDF with a sparse tridiagonal Jacobian.

The cumulative frac-face flux is *not* integrated in time (the t^-1/2 singularity would cost
accuracy); it follows from the exact identity

    int_0^t w_x(0,s) ds = int_0^1 Psi(w(x,t)) dx,   Psi(w) = int_w^1 dv / a(v),

valid for constant drawdown because (d/dt) int Phi(w) dx = int w_xx dx = -w_x(0) with Phi' = 1/a.
"""

from __future__ import annotations

import numpy as np
from scipy.integrate import solve_ivp
from scipy.sparse import diags


class AlphaTable:
    """a(w) by linear interpolation of table nodes, clipped to the end values (as documented:
    diffusivity looked up by scaled pseudopressure)."""

    def __init__(self, w_nodes, a_nodes):
        o = np.argsort(w_nodes)
        self.w = np.asarray(w_nodes, dtype=float)[o]
        self.a = np.asarray(a_nodes, dtype=float)[o]

    def __call__(self, w):
        return np.interp(w, self.w, self.a)

    def psi(self, w_eval, n=20001):
        """Psi(w) = int_w^1 dv/a(v) on [0,1] by fine composite trapezoid through every table node."""
        grid = np.unique(np.concatenate([np.linspace(-0.05, 1.0, n), self.w[(self.w > -0.05) & (self.w < 1)]]))
        f = 1.0 / self(grid)
        cum = np.concatenate([[0.0], np.cumsum(0.5 * (f[1:] + f[:-1]) * np.diff(grid))])
        total = cum[-1]
        return total - np.interp(w_eval, grid, cum)


def solve(alpha, t_eval, N=400, w_f=0.0, rtol=1e-9, atol=1e-11):
    """Return w at the nodes x_j = j/N (j = 0..N) for every t in t_eval (t_eval[0] may be 0)."""
    h2 = (1.0 / N) ** 2
    t_eval = np.asarray(t_eval, dtype=float)

    def rhs(_t, y):
        full = np.concatenate([[w_f], y, [y[-2]]])  # Dirichlet value, unknowns 1..N, mirrored ghost
        return alpha(y) * (full[:-2] - 2 * full[1:-1] + full[2:]) / h2

    y0 = np.ones(N)

    def jac(_t, y):
        a = alpha(y)
        full = np.concatenate([[w_f], y, [y[-2]]])
        lap = (full[:-2] - 2 * full[1:-1] + full[2:]) / h2
        eps = 1e-7
        da = (alpha(y + eps) - alpha(y - eps)) / (2 * eps)
        low = a[1:] / h2
        low[-1] *= 2  # mirrored ghost: the last row couples twice to its left neighbour
        return diags([low, -2 * a / h2 + da * lap, a[:-1] / h2], [-1, 0, 1], format="csc")

    ts = t_eval[t_eval > 0]
    sol = solve_ivp(rhs, (0.0, float(ts[-1])), y0, method="BDF", t_eval=ts, rtol=rtol, atol=atol,
                    jac=jac, first_step=1e-9)
    if not sol.success:
        raise RuntimeError("reference integration failed: " + sol.message)
    W = np.ones((len(t_eval), N + 1))
    W[:, 0] = w_f
    W[t_eval > 0, 1:] = sol.y.T
    W[t_eval <= 0, 0] = 1.0
    return np.linspace(0, 1, N + 1), W


def cumulative_flux(alpha: AlphaTable, W):
    """int_0^t w_x(0,s) ds for every row of W (constant drawdown), via the Psi identity."""
    P = alpha.psi(W)
    h = 1.0 / (W.shape[1] - 1)
    return h * (np.sum(P, axis=1) - 0.5 * (P[:, 0] + P[:, -1]))
