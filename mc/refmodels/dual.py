"""Forward-mode dual numbers: run the *parent's own code* and read off the exact derivative
(no step-size error).  Supports the operators the parent functions use: + - * / **, reflected
power (10 ** dual), comparisons on the primal, np.ndim(d) == 0, and exp/log/sqrt as methods
(NumPy ufuncs dispatch to them on object scalars)."""

from __future__ import annotations

import math


class DualCast(TypeError):
    pass


class Dual:
    __slots__ = ("v", "d")
    __array_priority__ = 1000

    def __init__(self, v, d=0.0):
        self.v, self.d = float(v), float(d)

    @staticmethod
    def _c(o):
        return o if isinstance(o, Dual) else Dual(o, 0.0)

    def __add__(self, o):
        o = self._c(o)
        return Dual(self.v + o.v, self.d + o.d)

    __radd__ = __add__

    def __sub__(self, o):
        o = self._c(o)
        return Dual(self.v - o.v, self.d - o.d)

    def __rsub__(self, o):
        return self._c(o) - self

    def __mul__(self, o):
        o = self._c(o)
        return Dual(self.v * o.v, self.d * o.v + self.v * o.d)

    __rmul__ = __mul__

    def __truediv__(self, o):
        o = self._c(o)
        return Dual(self.v / o.v, (self.d * o.v - self.v * o.d) / (o.v * o.v))

    def __rtruediv__(self, o):
        return self._c(o) / self

    def __neg__(self):
        return Dual(-self.v, -self.d)

    def __pos__(self):
        return self

    def __pow__(self, o):
        if isinstance(o, Dual):
            val = self.v**o.v
            return Dual(val, val * (o.d * math.log(self.v) + o.v * self.d / self.v))
        return Dual(self.v**o, o * self.v ** (o - 1) * self.d)

    def __rpow__(self, base):
        val = base**self.v
        return Dual(val, val * math.log(base) * self.d)

    def exp(self):
        e = math.exp(self.v)
        return Dual(e, e * self.d)

    def log(self):
        return Dual(math.log(self.v), self.d / self.v)

    def sqrt(self):
        s = math.sqrt(self.v)
        return Dual(s, self.d / (2 * s))

    def __float__(self):
        # a cast to float (float(x), np.asarray(x, dtype=float), math.log(x)) would silently drop the derivative:
        # make it loud; derivative() then falls back to finite differences
        raise DualCast("dual number cast to float: derivative tracking lost")

    def __abs__(self):
        return self if self.v >= 0 else -self

    def log10(self):
        return Dual(math.log10(self.v), self.d / (self.v * math.log(10.0)))

    def log2(self):
        return Dual(math.log2(self.v), self.d / (self.v * math.log(2.0)))

    def log1p(self):
        return Dual(math.log1p(self.v), self.d / (1.0 + self.v))

    def expm1(self):
        return Dual(math.expm1(self.v), math.exp(self.v) * self.d)

    def cbrt(self):
        c = math.copysign(abs(self.v) ** (1.0 / 3.0), self.v)
        return Dual(c, self.d / (3.0 * c * c))

    def __lt__(self, o):
        return self.v < float(self._c(o).v)

    def __le__(self, o):
        return self.v <= float(self._c(o).v)

    def __gt__(self, o):
        return self.v > float(self._c(o).v)

    def __ge__(self, o):
        return self.v >= float(self._c(o).v)

    def __eq__(self, o):
        return self.v == float(self._c(o).v)

    __hash__ = None

    def __repr__(self):
        return f"Dual({self.v!r}, {self.d!r})"


def _unwrap(out):
    if isinstance(out, Dual):
        return out
    try:
        import numpy as np  # noqa: PLC0415

        if isinstance(out, np.ndarray) and out.dtype == object and out.size == 1 and isinstance(out.reshape(-1)[0], Dual):
            return out.reshape(-1)[0]  # e.g. np.where(cond, dual, const)
    except Exception:  # noqa: BLE001
        pass
    return out


def derivative_ref(f, x, side=0):
    """(value, derivative, relative tolerance) of f at x (side = -1 / +1: x is known to lie left / right of a kink).

    Exact route: f is run on a dual number by the parent's own code; tolerance None means "exact, use the caller's
    rounding-level tolerance".  If the parent's code cannot carry a dual number (it casts to float, uses a ufunc
    the dual does not implement, ...) the derivative is obtained by Richardson-extrapolated central differences
    instead and a tolerance of 1e-7 is returned; next to a kink of f (one-sided differences disagree) that route
    returns (value, None, None): nothing is demanded there rather than risking a false alarm."""
    try:
        out = _unwrap(f(Dual(x, 1.0)))
        if isinstance(out, Dual):
            return out.v, out.d, None
        return float(out), 0.0, None  # x never entered the arithmetic: a constant branch (e.g. the initial GOR above p_b)
    except (TypeError, AttributeError, ValueError):
        pass
    f0 = float(f(x))
    if side:
        # the caller knows on which side of a kink x lies: second-order one-sided difference that stays on that side
        # (step 1e-6 |x|, or the caller's own bound on the distance to the kink)
        h = 1e-6 * max(abs(x), 1e-6) * (1 if side > 0 else -1)
        d1 = (-3 * f0 + 4 * float(f(x + h)) - float(f(x + 2 * h))) / (2 * h)
        d2 = (-3 * f0 + 4 * float(f(x + h / 2)) - float(f(x + h))) / h
        if abs(d1 - d2) > 1e-4 * max(abs(d1), abs(d2), 1e-300):
            return f0, None, None
        return f0, (4 * d2 - d1) / 3, 1e-6
    h = 1e-4 * max(abs(x), 1e-6)

    def cd(hh):
        return (float(f(x + hh)) - float(f(x - hh))) / (2 * hh)

    d1, d2 = cd(h), cd(h / 2)
    left = (f0 - float(f(x - h))) / h
    right = (float(f(x + h)) - f0) / h
    scale = max(abs(d1), abs(d2), abs(left), abs(right), 1e-300)
    if abs(left - right) > 1e-3 * scale or abs(d1 - d2) > 1e-6 * scale:
        return f0, None, None
    return f0, (4 * d2 - d1) / 3, 1e-7


def derivative(f, x):
    """d f / d x at x, with f evaluated by the parent's own code on a dual number."""
    v, d, tol = derivative_ref(f, x)
    if tol is not None or d is None:
        raise DualCast("the function cannot be differentiated exactly with dual numbers")
    return v, d
