"""Forward-mode dual numbers: run the *parent's own code* and read off the exact derivative
(no step-size error).  Supports the operators the parent functions use: + - * / **, reflected
power (10 ** dual), comparisons on the primal, np.ndim(d) == 0, and exp/log/sqrt as methods
(NumPy ufuncs dispatch to them on object scalars)."""

from __future__ import annotations

import math


class Dual:
    __slots__ = ("v", "d")
    __array_priority__ = 1000

    def __init__(self, v, d=0.0):
        self.v, self.d = float(v), float(d)

    @staticmethod
    def _c(o):
        return o if isinstance(o, Dual) else Dual(o, 0.0)

    def __add__(self, o):
        o = self._c(o)
        return Dual(self.v + o.v, self.d + o.d)

    __radd__ = __add__

    def __sub__(self, o):
        o = self._c(o)
        return Dual(self.v - o.v, self.d - o.d)

    def __rsub__(self, o):
        return self._c(o) - self

    def __mul__(self, o):
        o = self._c(o)
        return Dual(self.v * o.v, self.d * o.v + self.v * o.d)

    __rmul__ = __mul__

    def __truediv__(self, o):
        o = self._c(o)
        return Dual(self.v / o.v, (self.d * o.v - self.v * o.d) / (o.v * o.v))

    def __rtruediv__(self, o):
        return self._c(o) / self

    def __neg__(self):
        return Dual(-self.v, -self.d)

    def __pos__(self):
        return self

    def __pow__(self, o):
        if isinstance(o, Dual):
            val = self.v**o.v
            return Dual(val, val * (o.d * math.log(self.v) + o.v * self.d / self.v))
        return Dual(self.v**o, o * self.v ** (o - 1) * self.d)

    def __rpow__(self, base):
        val = base**self.v
        return Dual(val, val * math.log(base) * self.d)

    def exp(self):
        e = math.exp(self.v)
        return Dual(e, e * self.d)

    def log(self):
        return Dual(math.log(self.v), self.d / self.v)

    def sqrt(self):
        s = math.sqrt(self.v)
        return Dual(s, self.d / (2 * s))

    def __float__(self):
        return self.v

    def __lt__(self, o):
        return self.v < float(self._c(o).v)

    def __le__(self, o):
        return self.v <= float(self._c(o).v)

    def __gt__(self, o):
        return self.v > float(self._c(o).v)

    def __ge__(self, o):
        return self.v >= float(self._c(o).v)

    def __eq__(self, o):
        return self.v == float(self._c(o).v)

    __hash__ = None

    def __repr__(self):
        return f"Dual({self.v!r}, {self.d!r})"


def derivative(f, x):
    """d f / d x at x, with f evaluated by the parent's own code on a dual number."""
    out = f(Dual(x, 1.0))
    if isinstance(out, Dual):
        return out.v, out.d
    return float(out), 0.0  # the parent returned a constant (e.g. the initial GOR above p_b)
