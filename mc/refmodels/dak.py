"""Dranchuk-Abou-Kassem (1975) equation of state as published, with an independent bracketing
root finder; parameterised by the formula of the first density coefficient so that the known
deviation K1 of the library (A1*A2/Tr instead of A1 + A2/Tr) can be *classified*, not excused."""

from __future__ import annotations

import math

import numpy as np

A = (0.3265, -1.0700, -0.5339, 0.01569, -0.05165, 0.5475, -0.7361, 0.1844, 0.1056, 0.6134, 0.7210)


def coefficients(tr, variant="published"):
    a = A
    if variant == "published":
        c1 = a[0] + a[1] / tr + a[2] / tr**3 + a[3] / tr**4 + a[4] / tr**5
    elif variant == "K1":
        c1 = a[0] * a[1] / tr + a[2] / tr**3 + a[3] / tr**4 + a[4] / tr**5
    else:
        raise KeyError(variant)
    c2 = a[5] + a[6] / tr + a[7] / tr**2
    c3 = a[8] * (a[6] / tr + a[7] / tr**2)
    c4 = a[9] / tr**3
    return c1, c2, c3, c4


def z_eos(rho, tr, variant="published"):
    """Z as a function of reduced density (the right-hand side of the EOS)."""
    c1, c2, c3, c4 = coefficients(tr, variant)
    e = math.exp(-A[10] * rho * rho)
    return 1 + c1 * rho + c2 * rho**2 - c3 * rho**5 + c4 * (1 + A[10] * rho**2) * rho**2 * e


def dz_drho(rho, tr, variant="published"):
    c1, c2, c3, c4 = coefficients(tr, variant)
    a11 = A[10]
    e = math.exp(-a11 * rho * rho)
    return (c1 + 2 * c2 * rho - 5 * c3 * rho**4
            + c4 * e * (2 * rho + 2 * a11 * rho**3 - 2 * a11**2 * rho**5))


def residual(z, tr, pr, variant="published"):
    """Z - Z_eos(rho(Z)) at the reduced density implied by Z."""
    rho = 0.27 * pr / (tr * z)
    return z - z_eos(rho, tr, variant)


def z_root(tr, pr, variant="published", scan=2001):
    """All roots Z in [0.05, 5] of the EOS, by a density scan plus bisection (list, ascending)."""
    zs = np.geomspace(0.05, 5.0, scan)
    f = np.array([residual(z, tr, pr, variant) for z in zs])
    roots = []
    for k in range(len(zs) - 1):
        if f[k] == 0:
            roots.append(float(zs[k]))
        elif f[k] * f[k + 1] < 0:
            lo, hi, flo = zs[k], zs[k + 1], f[k]
            for _ in range(200):
                mid = 0.5 * (lo + hi)
                fm = residual(mid, tr, pr, variant)
                if fm == 0 or hi - lo < 1e-15 * mid:
                    break
                if fm * flo < 0:
                    hi = mid
                else:
                    lo, flo = mid, fm
            roots.append(float(0.5 * (lo + hi)))
    return roots


def dlnrho_dp_reduced(z, tr, pr, variant="published"):
    """d ln(rho)/d p_r along an isotherm for the EOS: 1/pr - (1/Z) dZ/dpr."""
    rho = 0.27 * pr / (tr * z)
    dz = dz_drho(rho, tr, variant)
    return 1.0 / pr - 0.27 / (z * z * tr) * (dz / (1 + rho * dz / z))
