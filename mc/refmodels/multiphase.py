"""Documented multiphase definitions (docs/background.md) and synthetic PVT families.

lambda = rho_o (Rv krg/(mu_g Bg) + kro/(mu_o Bo)) + rho_g (Rs kro/(mu_o Bo) + krg/(mu_g Bg))
         + rho_w krw/(mu_w Bw)
G(p)   = phi [ rho_o (Rv Sg/Bg + So/Bo) + rho_g (Rs So/Bo + Sg/Bg) + rho_w Sw/Bw ],   c = dG/dp
(the gas line follows the document's own conservation equation; the 'S_g/b_o' in its formula for
c is a typo of S_g/b_g and is not demanded)."""

from __future__ import annotations

import numpy as np

from ..common import LCG

PROPS = ["Bo", "Bg", "Bw", "Rs", "Rv", "mu_o", "mu_g", "mu_w"]


def grid(kind, seed=0):
    if kind == "uniform":
        return np.arange(100.0, 6000.0 + 1, 10.0)
    if kind == "high":  # beyond the shipped tables' range
        return np.arange(8000.0, 15001.0, 50.0)
    if kind == "integer":  # an integer-typed pressure column (np.arange(100, 6001, 20))
        return np.arange(100, 6001, 20, dtype=np.int64)
    if kind == "geometric":
        return 100.0 * 1.012 ** np.arange(344)
    g = LCG(seed + 5)
    return 100.0 + np.cumsum(np.array([1.0 + 30 * g.next() ** 2 for _ in range(500)]))


def family(name):
    """dict prop -> function of pressure (vectorised), plus So(p)."""
    one = lambda v: (lambda p: np.full_like(np.asarray(p, dtype=float), v))  # noqa: E731
    if name == "constant":
        f = {"Bo": one(1.3), "Bg": one(0.004), "Bw": one(1.02), "Rs": one(600.0), "Rv": one(0.0),
             "mu_o": one(0.8), "mu_g": one(0.02), "mu_w": one(0.4), "So": one(0.55)}
    elif name == "invB-linear":
        f = {"Bo": lambda p: 1 / (0.70 + 2e-5 * p), "Bg": lambda p: 1 / (20.0 + 0.05 * p),
             "Bw": lambda p: 1 / (0.97 + 3e-6 * p), "Rs": one(500.0), "Rv": one(0.0),
             "mu_o": lambda p: 0.6 + 4e-5 * p, "mu_g": lambda p: 0.015 + 1e-6 * p, "mu_w": one(0.35),
             "So": one(0.6)}
    elif name == "kinked":
        pb = 3000.0
        f = {"Bo": lambda p: np.where(p < pb, 1.05 + 1.2e-4 * p, 1.41 - 1.5e-5 * (p - pb)),
             "Bg": lambda p: 1 / (5.0 + 0.06 * p), "Bw": lambda p: 1.03 - 2e-6 * p,
             "Rs": lambda p: np.where(p < pb, 50 + 0.25 * p, 800.0), "Rv": one(0.0),
             "mu_o": lambda p: np.where(p < pb, 1.2 - 2e-4 * p, 0.6 + 3e-5 * (p - pb)),
             "mu_g": lambda p: 0.013 + 2e-6 * p, "mu_w": one(0.4),
             "So": lambda p: np.where(p < pb, 0.45 + 1e-4 * p, 0.75)}
    elif name == "swelling":  # Bo grows with pressure at constant Rs and little free gas: stored mass FALLS with pressure
        f = dict(family("invB-linear"))
        f["Bo"] = lambda p: 1.0 + 8e-5 * p
        f["Bg"] = lambda p: 1 / (20.0 + 1e-4 * p)
        f["Rs"] = one(0.0)
        f["So"] = one(0.85)
    elif name == "vaporised":
        f = dict(family("invB-linear"))
        f["Rv"] = lambda p: 2e-5 + 1e-8 * p
        f["Rs"] = lambda p: 300.0 + 0.05 * p
    else:
        raise KeyError(name)
    return f


def table(fam, p, container="dict"):
    f = family(fam)
    d = {"pressure": p.copy(), "pseudopressure": np.linspace(0.0, 1.0, len(p))}
    pf = np.asarray(p, dtype=float)
    for k in PROPS + ["So"]:
        d[k] = np.asarray(f[k](pf), dtype=float)
    if container == "frame":
        import pandas as pd  # noqa: PLC0415

        return pd.DataFrame(d)
    return d


def interp_pvt(tb, rho):
    """What the documentation calls 'functions of pressure': linear interpolants of the table."""
    from scipy.interpolate import interp1d  # noqa: PLC0415

    pvt = {k: interp1d(tb["pressure"], tb[k], fill_value="extrapolate") for k in PROPS + ["So"]}
    pvt.update(rho)
    return pvt


def lam_doc(p, So, tb, kr, rho):
    """Documented total mobility at table nodes (tb columns are node values)."""
    kro, krg, krw = kr["kro"](So), kr["krg"](So), kr["krw"](So)
    return (rho["rho_o0"] * (tb["Rv"] * krg / (tb["mu_g"] * tb["Bg"]) + kro / (tb["mu_o"] * tb["Bo"]))
            + rho["rho_g0"] * (tb["Rs"] * kro / (tb["mu_o"] * tb["Bo"]) + krg / (tb["mu_g"] * tb["Bg"]))
            + rho["rho_w0"] * krw / (tb["mu_w"] * tb["Bw"]))


def storage_doc(p, So, Sw, phi, fn, rho):
    """Documented stored mass per unit volume G(p) at fixed saturations; fn: prop -> callable."""
    Sg = 1 - So - Sw
    return phi * (rho["rho_o0"] * (fn["Rv"](p) * Sg / fn["Bg"](p) + So / fn["Bo"](p))
                  + rho["rho_g0"] * (fn["Rs"](p) * So / fn["Bo"](p) + Sg / fn["Bg"](p))
                  + rho["rho_w0"] * Sw / fn["Bw"](p))


def kr_table(exps=(1.0, 1.0, 1.0), res=(0.0, 0.1, 0.0), ends=(1.0, 1.0, 1.0), sw=0.1):
    """Independent Brooks-Corey two-phase table (So sweep at fixed Sw), clipped to [0,1]."""
    so = np.linspace(0.0, 1 - sw, 50)
    sg = 1 - sw - so
    den = 1 - sum(res)
    n = lambda s, r: np.clip((s - r) / den, 0, 1)  # noqa: E731
    return {"So": so, "Sw": np.full(50, sw), "Sg": sg,
            "kro": ends[0] * n(so, res[0]) ** exps[0], "krw": ends[1] * n(np.full(50, sw), res[1]) ** exps[1],
            "krg": ends[2] * n(sg, res[2]) ** exps[2]}


def interp_kr(krt):
    from scipy.interpolate import interp1d  # noqa: PLC0415

    return {k: interp1d(krt["So"], krt[k]) for k in ("kro", "krg", "krw")}
