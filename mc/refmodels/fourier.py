"""Closed-form solution of u_t = u_xx, u(x,0)=1, u(0,t)=0, u_x(1,t)=0 (docs/background.md)."""

from __future__ import annotations

import numpy as np

NTERMS = 4000


def field(x, t):
    """u(x, t) for arrays x (nodes) and scalar t > 0; t = 0 gives the initial state 1."""
    x = np.asarray(x, dtype=float)
    if t <= 0:
        return np.ones_like(x)
    n = np.arange(NTERMS)
    k = (2 * n + 1) * np.pi / 2
    w = np.exp(-(k**2) * t)
    return (2.0 / k * w) @ np.sin(np.outer(k, x))


def recovery(t):
    """Cumulative flux through x=0, int_0^t u_x(0,s) ds = 1 - sum 2/k^2 exp(-k^2 t)."""
    t = np.atleast_1d(np.asarray(t, dtype=float))
    n = np.arange(NTERMS)
    k = (2 * n + 1) * np.pi / 2
    out = 1.0 - (2.0 / k**2) @ np.exp(-np.outer(k**2, t))
    return np.where(t <= 0, 0.0, out)


def dudx_max(t):
    """max_x |u_x(x,t)| = u_x(0,t), used for the O(h) node-convention allowance."""
    if t <= 0:
        return np.inf
    n = np.arange(NTERMS)
    k = (2 * n + 1) * np.pi / 2
    return float(np.sum(2.0 * np.exp(-(k**2) * t)))
