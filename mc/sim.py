"""Step-transition-system view of a reservoir simulation (shape S) and the shared
time-grid / schedule lattices."""

from __future__ import annotations

import numpy as np

from . import tables
from .common import LCG


def time_grid(kind: str, n: int, T: float, seed: int = 0) -> np.ndarray:
    if kind == "uniform":
        return np.linspace(0.0, T, n)
    if kind == "quadratic":
        return np.linspace(0.0, np.sqrt(T), n) ** 2
    if kind == "geometric":
        # dt grows by 1.5 per step from 1e-4: late steps are huge relative to dx^2
        dt = 1e-4 * 1.5 ** np.arange(n - 1)
        return np.concatenate([[0.0], np.cumsum(dt)])
    if kind == "irregular":
        g = LCG(seed)
        dt = np.array([g.next() for _ in range(n - 1)])
        dt = np.where(dt < 0.15, 0.0, dt**3)  # repeated times (dt = 0) and 3 decades of spread
        dt *= T / max(dt.sum(), 1e-300)
        return np.concatenate([[0.0], np.cumsum(dt)])
    if kind == "huge":
        base = np.array([0.0, 1e3, 2e3, 1e6])
        if n <= 4:
            return base[:n]
        return np.concatenate([base, 1e6 + 1e5 * np.arange(1, n - 3)])
    if kind == "integer":  # integer dtype, e.g. days on production
        return np.arange(n, dtype=np.int64)
    if kind == "float32":  # single-precision time stamps
        return np.linspace(0.0, T, n).astype(np.float32)
    if kind == "jitter":  # 'evenly spaced' up to parts-per-million jitter and a slow stretch
        g = LCG(seed + 3)
        dt = (T / (n - 1)) * (1 + 4e-6 * (np.array([g.next() for _ in range(n - 1)]) - 0.5) + 2e-6 * np.arange(n - 1))
        return np.concatenate([[0.0], np.cumsum(dt)])
    if kind == "drift":  # evenly spaced up to a smooth 1e-3 stretch (a grid assembled from slightly uneven stamps)
        x = np.linspace(0.0, 1.0, n)
        return T * x * (1 + 1e-3 * x) / (1 + 1e-3)
    if kind == "repeat":  # repeated stamps (dt = 0) at the start and later, then steps of 1e3 .. 1e7: a step that changes
        return np.array([0.0, 0.0, 1e-3, 1e-3, 1.0, 1e3, 1e3, 1e6, 1e7][:max(n, 4)])  # nothing is not "steady state"
    if kind == "tiny":  # increments of 1e-9 .. 8e-9
        dt = 1e-9 * (1 + (np.arange(n - 1) % 8))
        return np.concatenate([[0.0], np.cumsum(dt)])
    if kind == "onestep":
        return np.array([0.0, 1e7])
    raise KeyError(kind)


def schedule(kind: str, n: int, p_f: float, p_i: float, p_min: float) -> np.ndarray | None:
    """Frac-face pressure schedules, all within [p_min, p_i]; `None` = scalar setting."""
    if kind == "scalar":
        return None
    if kind == "const":
        return np.full(n, float(p_f))
    k = np.arange(n)
    if kind == "stepdown":
        lo = max(p_min, p_f - 0.5 * (p_i - p_f)) if p_f - 0.5 * (p_i - p_f) > p_min else p_f
        lev = np.array([p_f + 0.5 * (p_i - p_f), p_f, lo])
        return lev[np.minimum(3 * k // max(n, 1), 2)].astype(float)
    if kind == "downup":
        lev = np.array([p_f, max(p_min, 0.5 * (p_f + p_min)) if p_f > p_min else p_f,
                        p_f + 0.7 * (p_i - p_f)])
        return lev[np.minimum(3 * k // max(n, 1), 2)].astype(float)
    raise KeyError(kind)


def make_reservoir(cls: str, nx: int, p_f, p_i: float, table: str | None):
    from bluebonnet.flow import IdealReservoir, SinglePhaseReservoir  # noqa: PLC0415

    if table and table.endswith("_f32"):
        p_i = np.float32(p_i)  # single-precision table: the initial pressure is a value read off that table
    if cls == "ideal":  # the optional fluid argument must not change the ideal-gas result
        return IdealReservoir(nx, p_f, p_i, tables.fluid(table, p_i) if table else None)
    if cls == "two":  # the oil-gas class: same solver through super().simulate(time), scalar frac-face pressure only
        from bluebonnet.flow import TwoPhaseReservoir  # noqa: PLC0415

        return TwoPhaseReservoir(nx, p_f, p_i, tables.fluid(table, p_i))
    return SinglePhaseReservoir(nx, p_f, p_i, tables.fluid(table, p_i))


def simulate(res, time, sched=None):
    if sched is None:
        res.simulate(time)
    else:
        res.simulate(time, sched)
    return res


def frac_values(res, cls, p_f, sched, n):
    """Scaled frac-face pseudopressure per level, and the initial value (public state only)."""
    if cls == "ideal":
        return np.zeros(n), 1.0
    fl = res.fluid
    pf = np.full(n, float(p_f)) if sched is None else np.asarray(sched, dtype=float)
    return np.asarray(fl.m_scaled_func(pf), dtype=float), float(fl.m_i)
