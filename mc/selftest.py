"""setup_cmd: nothing to compile - verify the toolchain, the binding to /repo/src and the
engines' own invariants (deterministic replay, exhaustive pmap ordering)."""

from __future__ import annotations

import sys

from . import common


def _sq(x):
    return {"outcome": x % 3, "violations": []}


def _envfault_selftest():
    """The deviation-bounded explorer must (a) see every iterative-solver call of a client, (b) flag a
    client that discards `info` and keeps the default tolerance, (c) replay deterministically.  On the
    repaired tree the library makes no iterative calls, so this stub keeps the engine honest."""
    import numpy as np  # noqa: PLC0415
    import scipy.sparse as sp  # noqa: PLC0415
    import scipy.sparse.linalg as spl  # noqa: PLC0415

    from . import envfault  # noqa: PLC0415

    A = sp.diags([[-1.0] * 4, [3.0] * 5, [-1.0] * 4], [-1, 0, 1], format="csr")
    b = np.arange(1.0, 6.0)

    def careless():
        x = b.copy()
        for _ in range(3):
            x, _info = spl.bicgstab(A, x, atol=1e-12)  # default rtol, info discarded
        return x

    def careful():
        x = b.copy()
        for _ in range(3):
            x, info = spl.bicgstab(A, x, rtol=1e-13, atol=1e-300)
            if info != 0:
                raise RuntimeError("solver did not converge")
        return x

    exact = np.linalg.solve(A.toarray() @ A.toarray() @ A.toarray(), b)
    for body, must_flag in ((careless, True), (careful, False)):
        runs = list(envfault.explore(body, 1))
        assert len(runs) == 1 + 3 * (envfault.N_ALT - 1), len(runs)
        assert all(len(r["points"]) == 3 or r["raised"] for _, r in runs)
        silent = [c for c, r in runs if not r["raised"] and np.max(np.abs(r["result"] - exact)) > 1e-9 * np.abs(exact).max()]
        assert bool(silent) == must_flag, (body.__name__, silent)
    a1 = envfault.run_once(careless, [0, 2, 0])["result"]
    a2 = envfault.run_once(careless, [0, 2, 0])["result"]
    assert np.array_equal(a1, a2), "replay must be deterministic"
    try:
        envfault.run_once(careless, [0, 0, 0, 1])
    except envfault.ReplayError:
        pass
    else:
        raise AssertionError("an unconsumed choice must be a hard error")
    print("envfault explorer self-test ok (13 executions per client, careless client flagged)")


def main() -> int:
    bb = common.bind()
    import jsonschema, lmfit, matplotlib, numpy, pandas, scipy  # noqa: F401, E401, PLC0415

    print("bound to", bb.__file__, "numpy", numpy.__version__, "scipy", scipy.__version__)
    for d in ("evidence", "replays"):
        (common.VERIF / d).mkdir(exist_ok=True)
    ctx = common.Ctx("SELFTEST", "quick", 0)
    out = ctx.pmap(_sq, range(1000))
    assert [o["outcome"] for o in out] == [i % 3 for i in range(1000)], "pmap must preserve order"
    g1, g2 = common.LCG(7), common.LCG(7)
    assert [g1.next() for _ in range(5)] == [g2.next() for _ in range(5)]
    _envfault_selftest()
    print("selftest ok")
    return 0


if __name__ == "__main__":
    sys.exit(main())
