"""setup_cmd: nothing to compile - verify the toolchain, the binding to /repo/src and the
engines' own invariants (deterministic replay, exhaustive pmap ordering)."""

from __future__ import annotations

import sys

from . import common


def _sq(x):
    return {"outcome": x % 3, "violations": []}


def main() -> int:
    bb = common.bind()
    import jsonschema, lmfit, matplotlib, numpy, pandas, scipy  # noqa: F401, E401, PLC0415

    print("bound to", bb.__file__, "numpy", numpy.__version__, "scipy", scipy.__version__)
    for d in ("evidence", "replays"):
        (common.VERIF / d).mkdir(exist_ok=True)
    ctx = common.Ctx("SELFTEST", "quick", 0)
    out = ctx.pmap(_sq, range(1000))
    assert [o["outcome"] for o in out] == [i % 3 for i in range(1000)], "pmap must preserve order"
    g1, g2 = common.LCG(7), common.LCG(7)
    assert [g1.next() for _ in range(5)] == [g2.next() for _ in range(5)]
    print("selftest ok")
    return 0


if __name__ == "__main__":
    sys.exit(main())
