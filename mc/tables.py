"""Shared fluid tables (DESIGN section 3).

Shipped tables are read from $VERIF_REPO/tests/data; synthetic families are exact
by construction (density = K p / z, c = 1/p - z'/z, m = integral of 2p/(mu z)).
Every builder returns a *fresh* dict of fresh arrays so that no two cases alias.
"""

from __future__ import annotations

import functools

import numpy as np

from .common import REPO

RENAME_GAS = {"P": "pressure", "Z-Factor": "z-factor", "Cg": "compressibility",
              "Viscosity": "viscosity", "Density": "density", "T": "temperature"}


@functools.lru_cache(maxsize=None)
def _csv(name):
    import pandas as pd  # noqa: PLC0415

    return pd.read_csv(REPO / "tests" / "data" / name)


def ship_gas(frame=False):
    df = _csv("pvt_gas.csv").rename(columns=RENAME_GAS)
    df = df[df["pressure"] >= 10].reset_index(drop=True)
    return df.copy() if frame else {c: df[c].to_numpy(dtype=float).copy() for c in df.columns}


RENAME_OIL = {"P": "pressure", "Z-Factor": "z-factor", "Co": "compressibility",
              "Oil_Viscosity": "viscosity", "Oil_Density": "density", "T": "temperature"}


def ship_oil(frame=False):
    """Shipped oil table (7x compressibility jump at the bubble point), renamed as in the tests."""
    df = _csv("pvt_oil.csv").rename(columns=RENAME_OIL)
    df = df[df["pressure"] >= 10].reset_index(drop=True)
    return df.copy() if frame else {c: df[c].to_numpy(dtype=float).copy() for c in df.columns}


@functools.lru_cache(maxsize=None)
def _lib():
    from bluebonnet.fluids import build_pvt_gas  # noqa: PLC0415

    df = build_pvt_gas({"N2": 0.01, "H2S": 0.0, "CO2": 0.02, "Gas Specific Gravity": 0.7,
                        "Reservoir Temperature (deg F)": 220.0}, "dry gas", maximum_pressure=12_000)
    return df.rename(columns={"Density": "density"})


def lib(frame=False):
    """Table tabulated by the library's own fluids module (build_pvt_gas); carries known finding K1
    (density follows the substituted EOS, compressibility the published one), i.e. it is measurably
    inconsistent - which C03 accounts for through its measured delta."""
    df = _lib()
    return df.copy() if frame else {c: df[c].to_numpy(dtype=float).copy() for c in df.columns}


def hay(frame=False, pmax=10_000.0):
    df = _csv("pvt_gas_HAYNESVILLE SHALE_20.csv").rename(columns={"Density": "density", "T": "temperature"})
    df = df[[c for c in df.columns if not c.startswith("Unnamed")]]
    df = df[(df["pressure"] >= 10) & (df["pressure"] <= pmax)].reset_index(drop=True)
    return df.copy() if frame else {c: df[c].to_numpy(dtype=float).copy() for c in df.columns}


# ---- synthetic thermodynamically exact families -------------------------------------------
_S = {
    "S_ideal": (lambda p: np.ones_like(p), lambda p: np.zeros_like(p),
                lambda p: np.full_like(p, 0.02)),
    "S_zlin": (lambda p: 1 + 2e-5 * p, lambda p: np.full_like(p, 2e-5),
               lambda p: 0.02 + 1e-6 * p),
    "S_zdip": (lambda p: 1 - 3e-5 * p + 4e-9 * p**2, lambda p: -3e-5 + 8e-9 * p,
               lambda p: 0.015 * np.exp(5e-5 * p)),
}


@functools.lru_cache(maxsize=None)
def _synth(name, pmax, step):
    z, dz, mu = _S[name]
    p = np.arange(10.0, pmax + step / 2, step)
    over = 50
    pf = np.linspace(p[0], p[-1], (len(p) - 1) * over + 1)
    f = 2 * pf / (mu(pf) * z(pf))
    # composite Simpson on the 50x oversampled grid (even number of sub-intervals per cell)
    h = pf[1] - pf[0]
    cell = (h / 3) * (f[0:-2:2] + 4 * f[1:-1:2] + f[2::2])
    cum = np.concatenate([[0.0], np.cumsum(cell)])  # at every second fine node
    m = cum[:: over // 2]
    K = 0.0933  # lb/ft3 per psi, arbitrary positive constant
    return {"pressure": p, "z-factor": z(p), "viscosity": mu(p), "density": K * p / z(p),
            "compressibility": 1 / p - dz(p) / z(p), "pseudopressure": m + 1000.0}


def synth(name, pmax=14_000.0, step=10.0, frame=False):
    """Synthetic exact family; pseudopressure has an arbitrary positive reference offset."""
    d = {k: v.copy() for k, v in _synth(name, float(pmax), float(step)).items()}
    if frame:
        import pandas as pd  # noqa: PLC0415

        return pd.DataFrame(d)
    return d


def synth_f32(name, frame=False):
    """The same exact family stored in single precision (a table read from a float32 file); `fluid()` and
    `sim.make_reservoir` then also pass the initial pressure as an np.float32 scalar (a value read off that table)."""
    d = {k: np.asarray(v, dtype=np.float32) for k, v in _synth(name, 14_000.0, 10.0).items()}
    if frame:
        import pandas as pd  # noqa: PLC0415

        return pd.DataFrame(d)
    return d


def simple_liquid(frame=False):
    """Table for the simple-liquid wrapper (FlowPropertiesSimple: scaled pseudopressure = pressure itself, diffusivity =
    1 / (compressibility x viscosity)): a slightly compressible liquid whose c and mu vary smoothly, diffusivity ~ 4..9."""
    p = np.arange(100.0, 10001.0, 50.0)
    d = {"pressure": p, "compressibility": 0.05 * (1.0 + 2e-5 * p), "viscosity": 5.0 / (1.0 + 1.2e-4 * p)}
    if frame:
        import pandas as pd  # noqa: PLC0415

        return pd.DataFrame(d)
    return d


def synth_desc(name, frame=False):
    """The same exact family with its rows in *descending* pressure order (legal: the wrapper's
    interpolators sort their abscissae)."""
    d = {k: v[::-1].copy() for k, v in synth(name).items()}
    if frame:
        import pandas as pd  # noqa: PLC0415

        return pd.DataFrame(d)
    return d


def synth_density_ratio(name, p_lo, p_hi):
    z = _S[name][0]
    return float((p_lo / z(np.float64(p_lo))) / (p_hi / z(np.float64(p_hi))))


# ---- synthetic diffusivity families through the user-alpha branch --------------------------
# pseudopressure is linear in pressure: m = p, table 100..10000 step 10; alpha is a function of
# s = (p - 100) / 9900 in [0, 1]
_A = {
    "A_const": lambda s: np.full_like(s, 3.0),
    "A_rise": lambda s: 0.5 + 9.5 * s,
    "A_fall": lambda s: 10.0 - 9.5 * s,
    "A_kink": lambda s: np.where(s < 0.6, 0.05 + 0.1 * s, 0.11 + 12.0 * (s - 0.6)),
    "A_kink1e3": lambda s: np.where(s < 0.5, 0.01 + 0.01 * s, 0.015 + 19.97 * (s - 0.5)),
    # bubble-point style discontinuity: 30x between two adjacent rows, gentle slopes elsewhere
    "A_jump": lambda s: np.where(s < 0.5, 0.2 + 0.1 * s, 6.0 + 2.0 * (s - 0.5)),
}


def alpha_family(name, frame=False):
    p = np.arange(100.0, 10_000.0 + 5, 10.0)
    s = (p - 100.0) / 9900.0
    d = {"pressure": p, "pseudopressure": p.copy(), "alpha": _A[name](s).astype(float)}
    if frame:
        import pandas as pd  # noqa: PLC0415

        return pd.DataFrame(d)
    return d


def alpha_zero(frame=False):
    """User-alpha table that starts at zero pressure with pseudopressure exactly 0 there (as every table produced by
    FlowPropertiesTwoPhase.from_table does): a frac-face pressure of exactly 0.0 - a falsy number - is inside the table."""
    p = np.arange(0.0, 10_000.0 + 5, 10.0)
    d = {"pressure": p, "pseudopressure": p.copy(), "alpha": _A["A_rise"](p / 10_000.0).astype(float)}
    if frame:
        import pandas as pd  # noqa: PLC0415

        return pd.DataFrame(d)
    return d


def alpha_int(frame=False):
    """User-alpha table whose pressure and pseudopressure columns are *integer typed* (legal input:
    the documentation only asks for arrays)."""
    p = np.arange(100, 10001, 50, dtype=np.int64)
    d = {"pressure": p, "pseudopressure": (p.astype(np.int64) * 37 + 11), "alpha": 2.0 + p / 4000.0}
    if frame:
        import pandas as pd  # noqa: PLC0415

        return pd.DataFrame(d)
    return d


def alpha_exact(name):
    """alpha as a function of *pressure* for the reference model (piecewise-linear table
    interpolation is exact for these piecewise-linear families up to the kink cell)."""
    return lambda p: _A[name]((np.asarray(p, dtype=float) - 100.0) / 9900.0)


TABLES = {
    "T_ship_gas": ship_gas, "T_hay": hay, "T_ship_oil": ship_oil, "T_lib": lib,
    "S_ideal": lambda **k: synth("S_ideal", **k), "S_zlin": lambda **k: synth("S_zlin", **k),
    "S_zdip": lambda **k: synth("S_zdip", **k), "S_zdip_desc": lambda **k: synth_desc("S_zdip", **k),
    "S_zdip_f32": lambda **k: synth_f32("S_zdip", **k),
    "Simple_liquid": simple_liquid,
    "A_const": lambda **k: alpha_family("A_const", **k), "A_rise": lambda **k: alpha_family("A_rise", **k),
    "A_fall": lambda **k: alpha_family("A_fall", **k), "A_kink": lambda **k: alpha_family("A_kink", **k),
    "A_kink1e3": lambda **k: alpha_family("A_kink1e3", **k),
    "A_jump": lambda **k: alpha_family("A_jump", **k),
    "A_int": alpha_int, "A_zero": alpha_zero,
}


def table(name, frame=False):
    if "@" in name:  # 'T_ship_gas@50': every 50th row (and the last one) of the base table - a coarse, legal table
        base, k = name.split("@")
        t = TABLES[base](frame=frame)
        n = len(t["pressure"])
        idx = np.unique(np.append(np.arange(0, n, int(k)), n - 1))
        if frame:
            return t.iloc[idx].reset_index(drop=True)
        return {c: np.asarray(v)[idx].copy() for c, v in t.items()}
    return TABLES[name](frame=frame)


def table_range(name):
    t = table(name)
    return float(np.min(t["pressure"])), float(np.max(t["pressure"]))


_FLUIDS = {}


def fluid(name, p_i):
    """FlowProperties for (table, p_i); cached per process - the object is read-only for
    the reservoir classes (checked by C09/C10: construction and simulate never write to it)."""
    import warnings  # noqa: PLC0415

    from bluebonnet.flow import FlowProperties  # noqa: PLC0415

    if name.startswith("Simple"):  # the simple-liquid wrapper (not exported from bluebonnet.flow)
        from bluebonnet.flow.flowproperties import FlowPropertiesSimple as FlowProperties  # noqa: PLC0415
    key = (name, float(p_i))
    if key not in _FLUIDS:
        with warnings.catch_warnings():
            warnings.simplefilter("ignore")
            _FLUIDS[key] = FlowProperties(table(name), np.float32(p_i) if name.endswith("_f32") else p_i)
    return _FLUIDS[key]
