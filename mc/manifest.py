"""Regenerate /verif/MANIFEST.json from the table below and validate it.

Usage: /venv/bin/python -m mc.manifest
"""

from __future__ import annotations

import json
from pathlib import Path

VERIF = Path(__file__).resolve().parent.parent

MC = "model_checking"
EX = "exploration"

# id: (built, level, technique, level text, level note, design ref)
CHECKS = {
    "C01": (
        True, MC,
        "step-transition system of every run of a complete product lattice (tables x pressure "
        "pairs x node counts x time grids x schedules), invariants in every state / transition",
        "Every simulation of the declared finite lattice (quick 1.4k runs / 58k transitions, "
        "thorough 7k runs / 280k transitions) is executed by the library; the maximum-principle "
        "bounds are evaluated in every state, space/time monotonicity on every transition under "
        "constant drawdown, and relaxation to the frac-face value on every grid whose rigorous "
        "backward-Euler decay bound is below 1e-8 (one huge step, a few huge steps, many small ones).",
        "Nothing is claimed between lattice points; tolerance 1e-10*|m_i| is the rounding level of a "
        "direct solve (measured worst 2e-13).",
        "4/C01"),
    "C02": (
        True, EX,
        "complete enumeration of refinement ladders x tables x pressure pairs, each rung simulated by "
        "the library and compared with the closed-form Fourier series or an independent 400-cell "
        "method-of-lines reference",
        "For every configuration of the declared lattice (ideal, constant-diffusivity and five "
        "pressure-dependent tables x 4 pressure pairs) every rung (20,400),(40,1600),(80,6400)"
        "[,(160,25600)] is simulated; field error (up to an O(h) node convention) and both recovery "
        "modes must shrink by <= 0.75 per rung and end below 6/nx. A scheme converging to another "
        "boundary-value problem has an error floor, so its ratio tends to 1 and it is rejected.",
        "Convergence is asymptotic; the check decides its stated consequence on a finite ladder. "
        "Reference accuracy (1e-5) is far below the 2e-4 floor used in the ratio test.",
        "4/C02"),
    "C03": (
        True, EX,
        "complete enumeration of tables x pressure pairs x schedules x refinement ladder; relation "
        "between the two recovery modes, monotonicity on every level and the density ceiling",
        "Every configuration (3 exactly consistent synthetic families and 2 shipped tables x 5 "
        "pressure pairs x {scalar, step-down, down-up} schedules, ideal reservoir x 5 pairs) is "
        "simulated on every rung; rf[0]=rfd[0]=0 exactly, gap <= 2.5/nx + 1.5 delta with delta the "
        "table's own measured inconsistency, gap ratio <= 0.75 per rung, non-decreasing while the "
        "schedule does not rise, in-place recovery <= 1 - rho(min p_f)/rho(p_i), ideal plateau 1-p_f/p_i.",
        "Shipped tables are admitted only where their measured inconsistency is <= 5%; nothing is "
        "claimed between lattice points.",
        "4/C03"),
    "C04": (
        True, MC,
        "step-transition system: backward-Euler residual recomputed from public state on every "
        "step of every lattice run; plus deviation-bounded exploration of solver answers "
        "(CHESS-style, iterative scipy.sparse.linalg entry points intercepted from the harness)",
        "S: on every step of every run the stored new level must satisfy the implicit update built "
        "from the previous level, that step's dt and alpha_scaled(previous level) on interior rows "
        "and the no-flow outer row with one least-squares mesh constant in [(nx-1)^2,(nx+1)^2], "
        "residual <= 1e-12 of the step's scale. E: every run with <=1 (quick) / <=2 (thorough) "
        "non-default solver answers out of {contract-limit error x2, not converged, breakdown} is "
        "executed to completion; a stored result that fails the residual test without an exception "
        "or warning is a violation. With a direct solver there are no choice points (reported).",
        "Solver contract assumed: ||r|| <= max(rtol||b||, atol) with the rtol/atol the library "
        "passes; dense LU in the harness is the exact answer.",
        "4/C04"),
    "C05": (
        True, EX,
        "complete enumeration of recovery curves x M x tau (9 decades) x scale factors x fit windows x "
        "Bounds variants x guess positions x malformed bounds; explicit-state breadth-first search over call histories of one "
        "forecaster object with a differential oracle against fresh objects",
        "Scaling law, linearity in M and joint time/tau rescaling are checked to rounding on every "
        "(curve, M, tau, factor); every (curve, M, tau, window end in {0.6,1,3} tau, 50|200 samples, "
        "Bounds with the truth inside / below / above) fit must land inside its bounds (zero tolerance), "
        "recover M and tau to 1e-3 when the truth is admissible, return a supplied tau bitwise with M the "
        "clipped closed-form least-squares optimum (1e-6); all 9 x 16 guess positions are regularised "
        "into finite bounds; 14 malformed Bounds raise ValueError.",
        "NaN bounds and (-inf, x) bounds are outside the quantifier.", "4/C05"),
    "C06": (
        True, EX,
        "complete enumeration of a (T_r, p_r, pseudocritical point) lattice, of the default table "
        "range for a gravity x temperature lattice, of isotherm sweeps and of a Hall-Yarbrough lattice; "
        "each returned Z substituted into an independently transcribed published EOS",
        "Every lattice point (quick 1.3k points + 1.8k Hall-Yarbrough points + 3 sweeps of 300 steps; "
        "thorough 30k + 43k + sweeps of 600) is evaluated by the library; root-ness (1e-6), low-pressure "
        "limit, continuity against continuation-tracked reference roots, 'not a bound / not the guess', "
        "Hall-Yarbrough termination (0.5 s alarm), finiteness and 5% agreement are checked at each.",
        "Known finding K1 (first coefficient A1*A2/Tr) is classified numerically per point: only values "
        "that are roots (1e-6) of the EOS with that single substitution are attributed to it.",
        "4/C06"),
    "C07": (
        True, EX,
        "complete enumeration of gas (gravity x temperature x contaminants x dryness x pressure), oil "
        "(T x API x gravity x GOR x p/p_b) and water (T x p x salinity) lattices; relations between "
        "library functions evaluated at every point",
        "At every state point: rho_g = pM/(ZRT) with the library's Z, rho_g*B_g independent of pressure "
        "(1e-11) and equal to the standard-condition mass content, c_g against a Richardson-extrapolated "
        "central difference of the library's own density (1e-4), mu_g positive and strictly increasing "
        "along each isotherm, rho_o*B_o - 0.0136 gamma_g R_s(p) independent of pressure, rho_w*B_w equal "
        "to the brine density and independent of pressure.",
        "Known finding K1 (c_g differentiates the published EOS, density follows the substituted one) "
        "is classified numerically at each point; any other mismatch is reported.",
        "4/C07"),
    "C08": (
        True, EX,
        "complete enumeration of compositions x ordered pressure pairs / triples (three routes compared) "
        "and of synthetic (grid x integrand) tables for the stand-alone transform",
        "For every composition of the lattice the table is built by build_pvt_gas, the stand-alone "
        "transform is applied to its columns and the adaptive quadrature is evaluated at every node "
        "pressure; all ordered pairs must agree within the trapezoid remainder bound of the 10-psi grid "
        "(derived per pair from the table's own integrand), all ordered triples must be additive (1e-8), "
        "every route is zero at its reference and strictly increasing; the stand-alone transform is "
        "compared with Gauss-Legendre integration on uniform, geometric and irregular grids.",
        "QUADPACK's error estimate is trusted far below the tolerance; pair lattice uses on-node pressures.",
        "4/C08"),
    "C09": (
        True, EX,
        "complete enumeration of tables x container x construction branch x p_i position, with every "
        "table cell queried, plus all single-missing-column subsets and rescale cases",
        "Every (table, DataFrame|dict, long|user-alpha|simple, p_i in {first, node, mid, off-node, last, "
        "below, above}) construction is executed: strict monotonicity of m-scaled, m_i consistency and "
        "its analytic bound in the user-alpha branch, node diffusivity 1/(c mu), lookups at -inf..inf and "
        "at three interior points of every table cell (finite, within the table's range), byte-level "
        "snapshot of the caller's table, ValueError/KeyError for each missing column and out-of-table "
        "p_i, rescale end points to 1e-12 for both containers.",
        "Tables satisfy the precondition (increasing pressure, positive properties; rows with zero "
        "pseudopressure are dropped before the user-alpha branch).",
        "4/C09"),
    "C10": (
        True, MC,
        "explicit-state BFS over call histories on the real object, states merged on a hash of "
        "the whole attribute dictionary, differential oracle against a fresh object; two TLC-checked TLA+ models of the object's "
        "life cycle with every edge of the dumped state graphs replayed on the implementation",
        "All call sequences over the 8-letter alphabet {3 grids, 2 scheduled simulates, rf, "
        "rf(density), interpolator} up to depth 4 (quick) / 6 (thorough) are executed on real "
        "IdealReservoir / SinglePhaseReservoir objects; every transition is compared bitwise with "
        "a fresh object that runs only the latest simulate and what followed it. On a correct "
        "tree the reachable graph closes (frontier empties) before the bound, so the result holds "
        "for this alphabet at any depth; the evidence reports whether it closed.",
        "Alphabet is finite (3 grids, 2 schedules, nx=6, 3 configurations); methods are functions "
        "of vars(obj) and arguments only (state-merging argument, by reading).",
        "4/C10"),
    "C11": (
        True, EX,
        "all arrays up to a length bound over a branch-boundary pressure alphabet x dtype x memory "
        "layout x oil x function, each compared element-wise with the scalar call",
        "Every array of length 0..3 (quick) / 0..4 (thorough) over the 7-value alphabet {15, 0.5 p_b, "
        "prev(p_b), p_b, next(p_b) in the array's own dtype, 1.5 p_b, 2.5 p_b} is passed, as float64, "
        "float32, int64 and int32, contiguous, stride-2 view and reversed view, to 12 array-accepting "
        "functions for 3 oils (173k / 1.2M calls): element k must equal the scalar call to 64 eps of the "
        "floating type involved, the result must be floating with the input's shape, and the input's "
        "bytes (view and base) must be unchanged.",
        "2-D arrays and scalars to Fluid.water_FVF/gas_FVF are outside the quantifier.",
        "4/C11"),
    "C12": (
        True, EX,
        "complete enumeration of a T x API x gas gravity x GOR lattice of oils, each with pressures "
        "within 1..4 ulp and 1e-9 of the bubble point and dense one-sided pressure ladders",
        "For each of the 486 (quick) / 3.5k (thorough) oils with bubble point > 50 psia: one-sided "
        "values of R_s, B_o, rho_o, mu_o at p_b(1 +- 1e-9) and +-1..4 ulp agree with the value at p_b to "
        "1e-6; R_s non-decreasing, bounded by and equal to the initial GOR at/above p_b, and "
        "p_b(R_s(p)) = p to 1e-8 p_b; B_o strictly rising below / falling above; mu_o strictly falling "
        "below; undersaturated compressibility and viscosity positive and finite.",
        "Nothing is claimed between lattice points.", "4/C12"),
    "C13": (
        True, EX,
        "complete lattice enumeration with forward-mode automatic differentiation of the parent's own "
        "code (dual numbers) as the reference derivative",
        "At every lattice point the hand-coded derivative (dBw/dp, dRs/dp, dBo/dRs) is compared to "
        "1e-12 with the dual part obtained by running the library's parent function on a dual number; "
        "dRs/dp must be exactly 0 at/above p_b (p/p_b in {1-1e-6, 1, 1+1e-6, next/prev float}); the "
        "all-pressure compressibility must equal the undersaturated correlation at/above p_b and its "
        "defining combination of the library's own B_g, dRs/dp and dBo/dRs below, for two pseudocritical points.",
        "The dual-number class reproduces the operators the parents use; the FVF in the denominator of "
        "the saturated compressibility may be the bubble-point or the current one.", "4/C13"),
    "C14": (
        True, EX,
        "complete enumeration of (exponent triple x residual triple x end-point triple) parameter sets "
        "on every record of a simplex lattice of saturations, plus every invalid-parameter case",
        "Each of 16.9k (quick) / 91k (thorough) admissible parameter sets is evaluated on a 1/20 (1/40) "
        "simplex lattice of saturation triples plus records exactly at each residual: finite, within "
        "[0, k_max], exactly 0 at/below residual, a non-decreasing function of the phase's own "
        "saturation; every out-of-range exponent, residual, end point and saturation sum must raise "
        "ValueError; the two-phase helper must return rows summing to 1 with krw = 0 for Sw <= S_wc "
        "and reject Sw > S_wc.",
        "Saturation sums are rejected beyond the function's own 1e-3 tolerance.", "4/C14"),
    "C15": (
        True, EX,
        "complete enumeration of PVT families (and the shipped oil+water table) x pressure grids x "
        "rel-perm sets x reference densities x mobility factors against the harness's own trapezoid "
        "integral of the documented total mobility",
        "For every combination the library's multiphase pseudopressure must equal (1e-12 of its range) "
        "the trapezoid integral of the documented total mobility on the table's grid, be 0 at the first "
        "pressure, increase strictly where mobility is positive, equal lambda (p - p0) for constant "
        "tables and scale with the mobility factor; FlowPropertiesTwoPhase.from_table built from it must "
        "have a strictly increasing m-scaled, m_i = 1 and map p_f < p_i into [0, 1).",
        "Documented mobility as transcribed in refmodels/multiphase.py.", "4/C15"),
    "C16": (
        True, EX,
        "complete enumeration of PVT families x grids x saturations x porosity x Sw x reference "
        "densities; storage coefficient against an independent +-0.5 psi difference of the documented "
        "storage function and its analytic slope",
        "At every table pressure of every combination: total compressibility equals the difference of "
        "the documented storage function over +-0.5 psi on the same interpolants (1e-8 relative + "
        "rounding of the difference), vanishes for constant tables, doubles with porosity, matches the "
        "generating functions' slope (2e-3, uniform grid); total mobility equals the documented sum "
        "(1e-12); alpha_multiphase and the alpha tabulated by from_table equal lambda / c (1e-7).",
        "The gas storage line follows the document's conservation equation (S_g/b_g); its 'S_g/b_o' is "
        "read as a typo.", "4/C16"),
    "C17": (
        True, MC,
        "pairs of step-transition systems advanced in lock step (shifted vs unshifted, scalar vs "
        "constant schedule), exhaustive enumeration of schedule lengths and of every path of the "
        "life-cycle automaton up to length 3",
        "Every (configuration, node count, grid, shift) pair of runs is executed and compared state by "
        "state; constant-array schedules must reproduce the scalar setting bitwise; every schedule "
        "length 0..2n except n (n in {2,8,20}) must raise ValueError; every path of length <= 3 over "
        "{rf, rf(density), interp, simulate} from a fresh object is executed for both classes and the "
        "error / node-reproduction / fill-value clauses are checked after every call.",
        "Shift tolerance = 200 x first-order rounding sensitivity of the steps (lagged nonlinear "
        "diffusivity amplifies; measured worst 1.2x) + 1e-12|m_i|; interpolator clause on strictly "
        "increasing grids.",
        "4/C17"),
    "C18": (
        True, EX,
        "complete enumeration of generating parameters x schedules x table lengths x evaluation points "
        "(objective) and x filter x window x iteration budget (fit), with harness-side recording "
        "subclasses of the reservoir and Minimizer classes the module looks up",
        "The objective is compared (1e-8 M) with M x recovery factor from the harness's own composition "
        "of the public API using the node count observed in the objective's constructor call, at and "
        "away from the generating parameters (zero at them); for every fit the Parameters and fcn_args "
        "handed to the minimiser are captured: fitted values inside their limits, p_initial limits = "
        "[max used frac-face pressure, pressure_imax], filtered rows excluded, days re-indexed, cumulative "
        "= running sum, window None/1 leaves pressures bitwise unchanged, window 3 = boxcar; caller's "
        "table unchanged.",
        "Filtering off is exercised on clean data only.", "4/C18"),
    "C19": (
        True, EX,
        "complete enumeration of Fluid parameter sets x methods x pressures, of build_pvt_gas "
        "(gravity x contaminants x dryness x maximum pressure) tables row by row, and of Sutton "
        "reduction / rejection clauses; call-order permutations for purity",
        "Every Fluid method is compared to 1e-14 with the stand-alone correlation evaluated with the "
        "object's attributes (parameter sets pairwise distinct so swapped/dropped arguments show); every "
        "row of every table equals the stand-alone gas correlations at the Sutton point to 1e-12 on the "
        "grid 10, 20, ... < maximum; each table is built after neighbouring tables that differ in one "
        "argument, and a set of builder calls is evaluated in three orders with bitwise-equal results.",
        "Hydrocarbon-only Sutton polynomials as transcribed.", "4/C19"),
    "C20": (
        True, EX,
        "complete enumeration of reservoirs x strides x rescale x tick settings and comparison-figure "
        "settings; every drawn artist is read back from the Axes; transform laws on arrays spanning "
        "denormals to 1e300 in float64 and float32",
        "For every figure the Line2D data read back from the Axes must be bitwise the simulated data: "
        "every k-th profile against linspace(1/nx,1,nx) (rescaled when requested), (time, recovery), "
        "(time, np.gradient(recovery, time)), and in the comparison figure (t/tau, simulated recovery), "
        "(t/tau, cumulative/M), (t/tau, frac-face pressure) for both filter settings and windows "
        "None/1/3; transform = sqrt to 2 ulp, inverse(transform(x)) and transform(inverse(x)) = x to "
        "8 ulp, inverted() returns the partner class, the 'squareroot' scale is registered.",
        "matplotlib stores the arrays it is given.", "4/C20"),
}

# additions after the later detection waves and the audit round (appended to the level text; DESIGN.md sections 9, 10)
EXTRA = {
    "C01": " Also: the two-phase class (its own simulate), 1500/3000-level runs, zero drawdown (p_frac = p_initial), p_frac exactly "
           "on a first table row with pseudopressure 0; relaxation is demanded to max(100 x decay bound, 1e-9) drawdowns.",
    "C02": " Also: the same rungs on uniform time grids against the exact reference (field at t >= 0.3), a late-time ladder run "
           "until the exact outer-boundary value is 1e-7 of the drawdown (|ln(simulated/exact)| must shrink and extrapolate to 0), "
           "mixed refinement (uniform grids of 3/7/25 levels, nx 25 -> 1600: coarser field within 4/nx of the finer), initial "
           "pressures between table rows, 500-psi tables and the two-phase class.",
    "C03": " Also: the in-place recovery is recomputed by the harness from the stored field and the table (absolute anchor), the "
           "signed gap at T/4 and T and the ideal plateau error are extrapolated along the ladder, time grids that do not start at 0.",
    "C04": " Also: one step of 1e7 and steps of 1e3..1e6 at every nx (mesh ratios to 1e13; the fitted mesh constant carries a "
           "resolution estimate and the nominal nx^2 is used when it is noise), the scaled diffusivity comes from the fluid's public "
           "lookup, flat stored levels must not move, warnings are counted only if absent from the all-exact baseline, "
           "module-level functools.partial aliases of the solvers are intercepted too (in every loaded bluebonnet module; lsqr / lsmr as well), the two-phase class, time grids that start at 1e3 / 1e6 / 1.7e9.",
    "C05": " Also: M over 21 decades (1e-9 .. 1e12), round trip to 1e-6, partially explicit forecast_cum arguments, Bounds through zero, evenly spaced windows that start at 0.05 tau, all-zero production, bounds reassigned on the forecaster between two fits.",
    "C06": " Also: p_r down to 1e-12 (DAK) / 1e-8 (Hall-Yarbrough), a 40 000-point (thorough 200 000) irrational-offset "
           "Hall-Yarbrough lattice, wet and contaminated tables; root residual 1e-9.",
    "C07": " Also: constants that define a named correlation are held to 1e-9, rho_g B_g / gravity is one number over the whole gas "
           "lattice (1e-11), pressures to p_r = 30 and 20 000 psia, temperatures to 650 F, every oil with a positive bubble point.",
    "C08": " Also: integer-typed tables, pandas Series and row-filtered frames as input, quadrature calls for neighbours that share "
           "(T, p, gravity) but not the pseudocritical point before each real call, each contaminant varied alone, finely resolved non-uniform windows at 6000 / 9000 psia for the stand-alone transform.",
    "C09": " Also: non-uniform pressure grids and frames with a non-default index, rescale rejections (outside the table, missing "
           "column), any exception type counts as 'an error', integer-typed whole-psi pressures through m_scaled_func, the tables in unit systems with c mu ten decades smaller / larger.",
    "C10": " The alphabet now has 16 (ideal: 12) letters plus setF/setP: grids A, A' (A stretched by 4 ppm), B (A's length and end "
           "points), C, D (to depletion), E (single entry), F (A's length, depleted after a few steps), two scheduled runs, a simulate that is rejected for a wrong-length schedule "
           "(must leave no trace) and one rejected for a pressure far outside the table, resim (the stored time array passed back) and bufB (the stored array overwritten with grid B and passed again), rf, rf(density), interpolator; also a two-object product exploration (same / mixed class, two "
           "single-phase fluids), a 60-node 128-level configuration, every history up to depth 2/3 over {simA, simB, setF, setP, rf, rf(density), interpolator} in "
           "fresh interpreters in several orders (process-global state), and full-edge conformance with two TLC-checked models: Reservoir.tla (16 states, 128 edges) and the wider "
           "ReservoirExt.tla (field reassignment between runs and the two rejected simulate calls: 112 states, 1232 edges, invariants NeverStale / CleanMeansCurrent); every edge of both dumped state graphs "
           "is replayed on a real object (observation bitwise against fresh objects + refinement mapping of vars(obj)).",
    "C11": " Also: Fluid.gas_FVF / gas_viscosity, unsorted arrays of 64 and 1000 pressures from 1 psia, one Fluid object whose "
           "pressure array is updated in place between calls.",
    "C12": " Also: continuity to 1e-13 + 20 x relative distance from p_b, the array forms on one array straddling p_b, Standing's "
           "undersaturated compressibility below its pole.",
    "C13": " Also: default and keyword standard conditions, non-round T / API / gravity; if a parent cannot carry a dual number the "
           "reference falls back to Richardson finite differences (1e-7, nothing demanded next to a kink).",
    "C14": " Also: one bad record among a hundred, cancelling sums, residuals leaving 1e-9 .. 0.04 of mobile pore space, connate "
           "water that is not a short decimal, the helper's rows fed back through relative_permeabilities, reversed / sub- / mixed batches (a record's values depend on that record alone).",
    "C15": " Also: initial pressure in the first / last cell and at the second / last node, mobilities of 1e-12, factors 1e-9 / 1e9, "
           "a span where no phase flows (exactly flat), the caller's table is not modified, the mobility factor through the viscosities (other units), a call on another grid with the table's length and end points.",
    "C16": " Also: other saturations / array-valued Sw on the same PVT functions and the first call repeated, a family whose stored "
           "mass falls with pressure, from_table on sorted / filtered DataFrames.",
    "C17": " Also: a nearly uniform ('drift') grid and epoch-sized origins in the shift lattice, the interpolator on 1200-level runs "
           "into depletion / 1e-6 increments / no drawdown, a constant schedule at another value than the object's own (list, "
           "integer and float arrays), a rejected schedule leaves the object unchanged, shifted pairs with stepped / build-up schedules, constant schedules on grids that do not start at zero, the interpolator after a build-up run.",
    "C18": " Also: the residual reported at the fitted parameters equals M x library forward model - production (recorder patched at "
           "lmfit.Minimizer.__init__), near-equal tau / M / p_initial call pairs, a late build-up, index variants, NaN rates, a second fluid table at the same initial pressure, permuted production columns.",
    "C19": " Also: pressures 1 .. 19 000 psia, full 14 000-psia tables (default maximum), each contaminant varied alone in the "
           "histories, maxima just above a multiple of 10, normalised-looking fluid-type strings, facade calls on 1500 / 4097 unordered pressures.",
    "C20": " Also: both entry points (transform, transform_non_affine) of the pair obtained from the Axes' own scale, the Axes' "
           "data -> display -> data round trip, x_max / y_max / plot_kwargs / own axes, 5001-level runs with the default stride, 240 / 1501-level runs with strides 1-3 (hundreds of profiles).",
}

# additions of the continuation session (eighth / ninth wave, wider TLC model, forecaster life cycle; DESIGN.md sections 9, 10)
EXTRA2 = {
    "C01": " Continuation session: a user-alpha table that starts at 0 psi (frac-face pressure exactly 0.0).",
    "C04": " Continuation session: a single-precision table with an np.float32 initial pressure, the simple-liquid wrapper as fluid, "
           "objects built with another nx that is reassigned before the run.",
    "C05": " Continuation session: explicit-state search over the life cycle of one forecaster (fits, fixed-tau fits, a failing fit, bounds "
           "reassigned, three forecast forms; depth 4 quick / 7 thorough; differential oracle against fresh forecasters; the state key keeps "
           "which forecasts were made under the previous / current fitted pair).",
    "C06": " Continuation session: Hall-Yarbrough states passed as np.float32 scalars (termination).",
    "C07": " Continuation session: standard-condition bases (0 F, 14.7) and (32 F, 14.504).",
    "C08": " Continuation session: builder tables whose maximum pressure is off the 10-psi grid (1255, 3002.5).",
    "C10": " Continuation session: held-results exploration (everything handed out earlier - fields, recovery arrays, interpolator objects - "
           "is held without copying and must stay what it was after every later call; depth 3 / 4).",
    "C11": " Continuation session: pandas Series of pressures with permuted, gapped, duplicated and string index (positional element-wise law).",
    "C13": " Continuation session: the pressure as 0-d / one-element array, cold nearly dead oils (40-60 F, GOR 0.5-12).",
    "C14": " Continuation session: every fifth parameter set again under np.errstate(all='raise') with warnings as errors; inadmissible "
           "parameters through the two-phase helper.",
    "C15": " Continuation session: reference densities listed in another key order, the object's own pseudopressure column.",
    "C16": " Continuation session: reference densities listed in two other key orders.",
    "C18": " Continuation session: gaps in a column the fit does not use, on productive days.",
    "C19": " Continuation session: a pseudocritical temperature of exactly 0 F.",
}

BASELINE_OFF = ("cd /repo && env -u BLUEBONNET_VERIF /venv/bin/python -m pytest -ra -q "
                "-p no:cacheprovider --timeout=900 --continue-on-collection-errors")


def build():
    checks, na = [], []
    for pid, (built, level, tech, text, note, ref) in CHECKS.items():
        if not built:
            na.append({"property_id": pid,
                       "reason": "check designed (DESIGN.md section " + ref + ") but not built yet; "
                                 "nothing is claimed for it in this commit"})
            continue
        checks.append({
            "property_id": pid,
            "quick_cmd": f"./check {pid} --tier quick",
            "thorough_cmd": f"./check {pid} --tier thorough",
            "evidence_file": f"/verif/evidence/{pid}.json",
            "replay_cmd_template": f"./check {pid} --replay {{path}}",
            "engine": "mc",
            "level_claimed": {"category": level, "text": text + EXTRA.get(pid, "") + EXTRA2.get(pid, ""), "design_ref": "DESIGN.md " + ref},
            "level_note": note,
            "technique": tech,
        })
    man = {
        "version": 1,
        "setup_cmd": "/venv/bin/python -m mc.selftest",
        "hooks": {
            "guard": "BLUEBONNET_VERIF",
            "enable": "no source hooks exist: every observation is public state or is intercepted "
                      "from the harness process; ./check exports BLUEBONNET_VERIF=1 for uniformity",
            "baseline_off_cmd": BASELINE_OFF,
            "source_commits": [],
            "add_only": True,
        },
        "engines": [{
            "name": "mc", "path": "/verif/mc",
            "serves_properties": [c["property_id"] for c in checks],
            "kind_free_text": "hand-written bounded-exhaustive explorers in Python running the real "
                              "library code: history BFS (H), step-transition systems (S), "
                              "deviation-bounded environment-answer exploration (E), complete "
                              "product-lattice enumeration against reference models (L)",
        }],
        "checks": checks,
        "not_applicable": na,
        "notes": "Run with /venv/bin/python through ./check; VERIF_REPO selects the tree (default "
                 "/repo), VERIF_SEED shifts the secondary lattice copy, VERIF_TIER or --tier the depth.",
    }
    return man


def main():
    import jsonschema  # noqa: PLC0415

    man = build()
    schema = json.loads(Path("/root/.vp/MANIFEST.schema.json").read_text())
    jsonschema.validate(man, schema)
    (VERIF / "MANIFEST.json").write_text(json.dumps(man, indent=1) + "\n")
    print("MANIFEST.json written:", len(man["checks"]), "checks,", len(man["not_applicable"]), "n/a")


if __name__ == "__main__":
    main()
