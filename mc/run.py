"""CLI: python -m mc.run <ID> [--tier quick|thorough] [--replay FILE]."""

from __future__ import annotations

import argparse
import importlib
import json
import os
import sys

from . import common


def main(argv=None) -> int:
    ap = argparse.ArgumentParser()
    ap.add_argument("prop")
    ap.add_argument("--tier", default=os.environ.get("VERIF_TIER", "quick"),
                    choices=["quick", "thorough"])
    ap.add_argument("--replay")
    a = ap.parse_args(argv)
    prop = a.prop.upper()
    seed = int(os.environ.get("VERIF_SEED", "0") or 0)
    common.bind()
    mod = importlib.import_module(f"mc.props.{prop.lower()}")
    if a.replay:
        rec = json.loads(open(a.replay).read())
        vs = mod.replay(rec["case"])
        unknown, hits = common.classify(prop, vs, common.load_known())
        for kid, (e, n) in hits.items():
            print(f"KNOWN-FINDING: property={prop} {e['what']} [{kid}]")
        for v in unknown:
            print(f"VIOLATION property={prop} replay={a.replay}")
            print(f"  oracle={v['oracle']}: {v['msg']}")
        if not unknown:
            print(f"{prop} replay: case no longer violates")
        return 1 if unknown else 0
    ctx = common.Ctx(prop, a.tier, seed)
    try:
        return mod.run(ctx)
    except Exception as e:  # noqa: BLE001
        if not (ctx.capped and ctx.violations):
            raise
        # the exploration was aborted after repeated non-terminating cases and the coverage summary of the property
        # module could not be computed from the partial results: the violations found so far are still reported
        return ctx.finish("exploration", {"aborted": True, "summary_error": f"{type(e).__name__}: {e}"},
                          ["exploration aborted: see cap_hit"])


if __name__ == "__main__":
    sys.exit(main())
