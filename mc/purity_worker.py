"""Fresh-interpreter evaluation of a list of calls in a given order (see common.purity_violations).
Reads a pickle {calls: [(label, 'module:function', args, post)], order: [...]} on stdin and writes a
pickle {index: ('ok', bytes) | ('raise', name)} on stdout.  A fresh interpreter per order is the only
way to see module-level memos: within one process the first caller has already populated them."""

from __future__ import annotations

import importlib
import pickle
import sys

from . import common


def main():
    common.bind()
    import numpy as np  # noqa: PLC0415

    job = pickle.load(sys.stdin.buffer)
    out = {}
    for i in job["order"]:
        label, path, args, post = job["calls"][i]
        mod, fn = path.split(":")
        f = importlib.import_module(mod)
        for part in fn.split("."):
            f = getattr(f, part)
        try:
            r = f(*args)
            if post is not None:
                r = r[post]
            out[i] = ("ok", np.asarray(r, dtype=float).tobytes())
        except Exception as e:  # noqa: BLE001
            out[i] = ("raise", type(e).__name__)
    pickle.dump(out, sys.stdout.buffer)


if __name__ == "__main__":
    main()
