"""Model + conformance layer for C10: TLC explores the abstract life-cycle model
tla/Reservoir.tla exhaustively (checking NeverStale at model level) and dumps its labelled state
graph; EVERY edge of that graph is then replayed on a real reservoir object and two things are
compared: the observation the call returns (against values obtained from fresh objects) and the
refinement mapping (the abstraction of the implementation's state must be the model's target state).
"""

from __future__ import annotations

import collections
import re
import shutil
import subprocess
import tempfile
from pathlib import Path

import numpy as np

from . import history
from .common import VERIF, V

LABEL = {'Simulate("A")': "simA", 'Simulate("B")': "simB", 'Simulate("C")': "simC",
         'Simulate("AS1")': "simA+S1", 'Simulate("BS2")': "simB+S2",
         'Rf("flux")': "rf", 'Rf("dens")': "rf_density", "Interp": "interp"}
SIM_OF = {"simA": "A", "simB": "B", "simC": "C", "simA+S1": "AS1", "simB+S2": "BS2"}


def run_tlc(module="Reservoir"):
    """Return (nodes: id -> (sim, (kind, simid)), edges: [(src, label, dst)], init id, tlc summary line).
    For module "ReservoirExt" a node is the dict {sim: (run, pf), pf, dirty, cache: (kind, run, pf)}."""
    d = Path(tempfile.mkdtemp(prefix="bbtlc-"))
    try:
        if shutil.which("tlc") is None:
            raise FileNotFoundError("tlc")
        r = subprocess.run(["tlc", "-workers", "1", "-noGenerateSpecTE", "-metadir", str(d / "meta"), "-deadlock",
                            "-dump", "dot,actionlabels", str(d / "graph"), module + ".tla"],
                           cwd=str(VERIF / "tla"), capture_output=True, text=True, timeout=300)
        out = r.stdout + r.stderr
        if "No error has been found" not in out:
            raise RuntimeError("TLC reported an error on the abstract model:\n" + out[-1500:])
        summary = next((l for l in out.splitlines() if "distinct states found" in l), "")
        dot = (d / "graph.dot").read_text()
    except (FileNotFoundError, subprocess.TimeoutExpired, OSError) as e:
        # the model is static: if the model checker cannot be started here, replay the committed dump of
        # the same model (tla/Reservoir.graph.dot, produced by the command above) and say so
        dot = (VERIF / "tla" / (module + ".graph.dot")).read_text()
        summary = f"TLC not started here ({type(e).__name__}); committed state-graph dump of the same model replayed"
    finally:
        shutil.rmtree(d, ignore_errors=True)
    nodes, edges, init = {}, [], None
    for m in re.finditer(r'^(-?\d+) \[label="((?:[^"\\]|\\.)*)"(,style = filled)?', dot, re.M):
        lab = m.group(2).replace('\\"', '"').replace("\\\\", "\\")
        if module == "ReservoirExt":
            sm = re.search(r'sim = <<"(\w+)", "(\w+)">>', lab)
            c = re.search(r'cache = <<"(\w+)", "(\w+)", "(\w+)">>', lab)
            nodes[m.group(1)] = {"sim": (sm.group(1), sm.group(2)), "pf": re.search(r'pf = "(\w+)"', lab).group(1),
                                 "dirty": re.search(r"dirty = (\w+)", lab).group(1) == "TRUE", "cache": c.groups()}
            if m.group(3):
                init = m.group(1)
            continue
        sim = re.search(r'sim = "(\w+)"', lab).group(1)
        c = re.search(r'cache = <<"(\w+)", "(\w+)">>', lab)
        nodes[m.group(1)] = (sim, (c.group(1), c.group(2)))
        if m.group(3):
            init = m.group(1)
    for m in re.finditer(r'^(-?\d+) -> (-?\d+) \[label="((?:[^"\\]|\\.)*)",color', dot, re.M):
        edges.append((m.group(1), m.group(3).replace('\\"', '"'), m.group(2)))
    return nodes, edges, init, summary.strip()


def conformance(cfg):
    from .props import c10  # noqa: PLC0415

    nodes, edges, init, summary = run_tlc()
    # shortest operation path to every model state (BFS over the dumped graph)
    path = {init: []}
    q = collections.deque([init])
    out_edges = collections.defaultdict(list)
    for s, lab, t in edges:
        out_edges[s].append((lab, t))
    while q:
        s = q.popleft()
        for lab, t in out_edges[s]:
            if t not in path:
                path[t] = path[s] + [LABEL[lab]]
                q.append(t)
    # concrete values of every abstract observation, from fresh objects
    field, curve, interp = {}, {}, {}
    for op, sid in SIM_OF.items():
        o, obs = c10.build([op], cfg)
        field[sid] = (obs[-1][1], obs[-1][2])
        for kind, rop in (("flux", "rf"), ("dens", "rf_density")):
            curve[(kind, sid)] = c10.build([op, rop], cfg)[1][-1][1]
            interp[(kind, sid)] = c10.build([op, rop, "interp"], cfg)[1][-1][1]

    def abstract(obj):
        d = vars(obj)
        sim = "none"
        if "time" in d and "pseudopressure" in d:
            hits = [sid for sid, (t, u) in field.items() if history.same(d["time"], t) and history.same(d["pseudopressure"], u)]
            sim = hits[0] if len(hits) == 1 else f"?{hits}"
        cache = ("none", "none")
        if "recovery" in d:
            hits = [k for k, v in curve.items() if history.same(np.asarray(d["recovery"]), v)]
            cache = hits[0] if len(hits) == 1 else ("?", str(hits))
        return sim, cache

    viol = []
    for s, lab, t in edges:
        op = LABEL[lab]
        hist = path[s] + [op]
        obj, obs = c10.build(hist, cfg)
        got = obs[-1]
        sim_t, cache_t = nodes[t]
        case = {"config": list(cfg), "history": hist, "model_edge": [list(nodes[s]), lab, list(nodes[t])]}
        if op in SIM_OF:
            ok = got[0] == "sim" and history.same(got[1], field[sim_t][0]) and history.same(got[2], field[sim_t][1])
        elif nodes[s][0] == "none":
            ok = got[0] == "raise"
        elif op == "interp":
            ok = got[0] == "val" and history.same(got[1], interp[cache_t])
        else:
            ok = got[0] == "val" and history.same(got[1], curve[cache_t])
        if not ok:
            viol.append(V("model-conformance/observation", f"model edge {nodes[s]} --{lab}--> {nodes[t]}: the implementation, "
                          f"driven along {hist}, observes something else than the model predicts ({got[0]})", case=case))
            continue
        a = abstract(obj)
        if "recovery" not in vars(obj):
            # an implementation that does not keep the curve as an attribute has no cache component to map: the
            # observation part above already tied every read to the model; only the `sim` component is compared
            if a[0] != sim_t:
                viol.append(V("model-conformance/refinement-mapping", f"after {hist} the stored run abstracts to {a[0]}, the "
                              f"model is in {nodes[t]}", case=case))
            continue
        if a != (sim_t, cache_t):
            viol.append(V("model-conformance/refinement-mapping", f"after {hist} the implementation's state abstracts to {a}, "
                          f"the model is in {nodes[t]}", case=case))
    return {"violations": viol[:3], "tlc": {"model_states": len(nodes), "model_edges": len(edges), "edges_replayed": len(edges),
                                            "tlc_summary": summary}}


# ---------------------------------------------------------------------------------------------------------
# the wider model (tla/ReservoirExt.tla): field reassignment between runs and rejected simulate calls

LABEL_EXT = dict(LABEL, SimBad="simB+bad", SimOOR="simB+oor", SetP="setP")
RUN_OP = {"A": "simA", "B": "simB", "C": "simC", "AS1": "simA+S1", "BS2": "simB+S2"}


def conformance_ext(cfg, part=0, parts=1):
    """Replay every edge (or the part-th of `parts` slices of the edge list) of ReservoirExt's state graph."""
    from .props import c10  # noqa: PLC0415

    nodes, edges, init, summary = run_tlc("ReservoirExt")
    path = {init: []}
    q = collections.deque([init])
    out_edges = collections.defaultdict(list)
    for s, lab, t in edges:
        out_edges[s].append((lab, t))
    while q:
        s = q.popleft()
        for lab, t in out_edges[s]:
            if t not in path:
                path[t] = path[s] + [LABEL_EXT[lab]]
                q.append(t)
    assert len(path) == len(nodes), "model state graph is not connected from Init"
    # concrete values of every abstract observation, from FRESH objects constructed with the field value of the run
    field, curve, interp = {}, {}, {}
    for r, op in RUN_OP.items():
        for p, pre in (("P0", ()), ("P1", ("setP",))):
            o, obs = c10.build([op], cfg, pre)
            field[(r, p)] = (obs[-1][1], obs[-1][2])
            for kind, rop in (("flux", "rf"), ("dens", "rf_density")):
                curve[(kind, r, p)] = c10.build([op, rop], cfg, pre)[1][-1][1]
                interp[(kind, r, p)] = c10.build([op, rop, "interp"], cfg, pre)[1][-1][1]
    # the model distinguishes runs by their field value: the reference values must do so too, or the replay is vacuous
    distinct_fields = len({history.canon_value(np.asarray(v[1])) for v in field.values()})

    def abstract(obj):
        d = vars(obj)
        cur = d.get("pressure_fracface")
        pf = "?"
        if np.ndim(cur) == 0:
            pf = "P0" if cur == cfg[2] else "P1" if cur == 0.5 * cfg[2] else "?"
        sims = {("none", "none")}
        if d.get("time") is not None and d.get("pseudopressure") is not None:
            sims = {k for k, (t, u) in field.items() if history.same(d["time"], t) and history.same(d["pseudopressure"], u)}
        caches = {("none", "none", "none")}
        if d.get("recovery") is not None:
            caches = {k for k, v in curve.items() if history.same(np.asarray(d["recovery"]), v)}
        return pf, sims, caches

    viol, n = [], 0
    for idx, (s, lab, t) in enumerate(edges):
        if idx % parts != part:
            continue
        n += 1
        op = LABEL_EXT[lab]
        hist = path[s] + [op]
        obj, obs = c10.build(hist, cfg)
        got = obs[-1]
        S, T = nodes[s], nodes[t]
        case = {"config": list(cfg), "history": hist, "tlc_ext": True,
                "model_edge": [repr(S), lab, repr(T)]}
        if lab.startswith("Simulate"):
            ok = got[0] == "sim" and history.same(got[1], field[T["sim"]][0]) and history.same(got[2], field[T["sim"]][1])
        elif lab in ("SimBad", "SimOOR"):
            ok = got[0] == "raise"
        elif lab == "SetP":
            ok = got[0] == "set"
        elif S["sim"][0] == "none":
            ok = got[0] == "raise"
        elif S["dirty"]:
            ok = True  # a read between a field reassignment and the next simulate: not specified
        elif op == "interp":
            ok = got[0] == "val" and history.same(got[1], interp[T["cache"]])
        else:
            ok = got[0] == "val" and history.same(got[1], curve[T["cache"]])
        if not ok:
            viol.append(V("model-conformance/observation", f"wider model, edge {S} --{lab}--> {T}: the implementation, driven "
                          f"along {hist}, observes something else than the model predicts ({got[0]})", case=case))
            continue
        pf, sims, caches = abstract(obj)
        bad = []
        if pf != T["pf"]:
            bad.append(f"field pressure_fracface abstracts to {pf}")
        if T["sim"] not in sims:
            bad.append(f"stored run abstracts to {sorted(sims)}")
        if T["cache"][0] != "any" and "recovery" in vars(obj) and T["cache"] not in caches:
            # (an implementation that keeps no curve attribute has no cache component to map; reads were tied above)
            bad.append(f"cached curve abstracts to {sorted(caches)}")
        if bad:
            viol.append(V("model-conformance/refinement-mapping", f"wider model: after {hist} " + "; ".join(bad) +
                          f" - the model is in {T}", case=case))
    return {"violations": viol[:3], "tlc": {"model": "ReservoirExt", "model_states": len(nodes), "model_edges": len(edges),
                                            "edges_replayed": n, "part": [part, parts], "distinct_reference_fields": distinct_fields,
                                            "tlc_summary": summary}}
