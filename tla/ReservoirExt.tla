--------------------------- MODULE ReservoirExt ---------------------------
(* Second, wider abstract life-cycle of one reservoir object (property C10).  On top of Reservoir.tla
   it models (i) the public field `pressure_fracface` being reassigned between runs (SetP toggles it
   between two values; a run is identified by the grid/schedule it was started with AND by the field
   value current at that moment), and (ii) the two kinds of REJECTED simulate calls (a schedule one
   entry short; a schedule whose last entry lies outside the fluid table): they must raise and leave
   the whole state unchanged (defects F4 and F17 of DESIGN.md section 7 are exactly violations of
   these two parts).

   `dirty` is TRUE between a field reassignment and the next simulate.  The property says nothing
   about reads made in that window, so the model leaves their result unspecified: they put the cache
   into the abstract value <<"any","any">> (mc/tlc_conf.py compares only the stored run, not the
   cache, in such states).  Every action is named without parameters so that TLC's
   "-dump dot,actionlabels" labels each edge with the call to replay on the implementation.       *)
EXTENDS Naturals

VARIABLES sim,    \* <<run, pf>> of the latest accepted simulate, or <<"none","none">>
          pf,     \* current value of the public field pressure_fracface: "P0" | "P1"
          dirty,  \* a field was reassigned after the latest accepted simulate
          cache   \* <<kind, run, pf>> of the cached recovery curve, <<"none",..>> or <<"any",..>>

vars == <<sim, pf, dirty, cache>>
Runs == {"A", "B", "C", "AS1", "BS2"}
PFs == {"P0", "P1"}
Kinds == {"flux", "dens"}
NoSim == <<"none", "none">>
NoCache == <<"none", "none", "none">>
AnyCache == <<"any", "any", "any">>

Init == sim = NoSim /\ pf = "P0" /\ dirty = FALSE /\ cache = NoCache

\* an accepted run: identified by its grid/schedule and the field value it started from; drops the cache
Simulate(r) == /\ sim' = <<r, pf>>
               /\ cache' = NoCache
               /\ dirty' = FALSE
               /\ pf' = pf
SimA == Simulate("A")
SimB == Simulate("B")
SimC == Simulate("C")
SimAS1 == Simulate("AS1")
SimBS2 == Simulate("BS2")

\* rejected simulate calls: an error, nothing changes
SimBad == UNCHANGED vars
SimOOR == UNCHANGED vars

\* the public field is reassigned on the live object (toggle)
SetP == /\ pf' = IF pf = "P0" THEN "P1" ELSE "P0"
        /\ dirty' = (sim # NoSim)
        /\ UNCHANGED <<sim, cache>>

\* recovery_factor(density=...): an error (state unchanged) before the first simulate
Rf(k) == /\ UNCHANGED <<sim, pf, dirty>>
         /\ cache' = IF sim = NoSim THEN cache
                     ELSE IF dirty THEN AnyCache
                     ELSE <<k, sim[1], sim[2]>>
RfFlux == Rf("flux")
RfDens == Rf("dens")

\* recovery_factor_interpolator(): uses the cache, computing the flux curve when there is none
Interp == /\ UNCHANGED <<sim, pf, dirty>>
          /\ cache' = IF sim = NoSim THEN cache
                      ELSE IF dirty THEN AnyCache
                      ELSE IF cache[1] = "none" THEN <<"flux", sim[1], sim[2]>> ELSE cache

Next == SimA \/ SimB \/ SimC \/ SimAS1 \/ SimBS2 \/ SimBad \/ SimOOR \/ SetP \/ RfFlux \/ RfDens \/ Interp
Spec == Init /\ [][Next]_vars

TypeOK == /\ sim \in (Runs \X PFs) \cup {NoSim}
          /\ pf \in PFs
          /\ dirty \in BOOLEAN
          /\ cache[1] \in Kinds \cup {"none", "any"}

\* the property at model level: a specified cached curve belongs to the latest accepted simulation,
\* and nothing is cached before the first run
NeverStale == /\ cache[1] \in Kinds => (cache[2] = sim[1] /\ cache[3] = sim[2])
              /\ sim = NoSim => cache = NoCache
\* a clean state's run was started from the field value that is still current
CleanMeansCurrent == (sim # NoSim /\ ~dirty) => sim[2] = pf
=============================================================================
