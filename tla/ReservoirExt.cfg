SPECIFICATION Spec
INVARIANT TypeOK
INVARIANT NeverStale
INVARIANT CleanMeansCurrent
