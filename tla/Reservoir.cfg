SPECIFICATION Spec
INVARIANT TypeOK
INVARIANT NeverStale
