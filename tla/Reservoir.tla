---------------------------- MODULE Reservoir ----------------------------
(* Abstract life-cycle of one reservoir object (property C10): which simulation the stored
   field belongs to and what the recovery cache holds.  Every action is named without
   parameters so that TLC's "-dump dot,actionlabels" labels each edge with the call to replay
   on the implementation (mc/tlc_conf.py replays EVERY edge of the dumped graph).          *)
EXTENDS Naturals

VARIABLES sim,    \* "none" or the id of the latest simulate: "A","B","C","AS1","BS2"
          cache   \* <<kind, simid>> of the cached recovery curve, or <<"none","none">>

vars == <<sim, cache>>
Sims == {"A", "B", "C", "AS1", "BS2"}
Kinds == {"flux", "dens"}

Init == sim = "none" /\ cache = <<"none", "none">>

Simulate(s) == sim' = s /\ cache' = <<"none", "none">>   \* a new run invalidates the cache
SimA == Simulate("A")
SimB == Simulate("B")
SimC == Simulate("C")
SimAS1 == Simulate("AS1")
SimBS2 == Simulate("BS2")

\* recovery_factor(density=...): an error (state unchanged) before the first simulate
Rf(k) == /\ sim' = sim
         /\ cache' = IF sim = "none" THEN cache ELSE <<k, sim>>
RfFlux == Rf("flux")
RfDens == Rf("dens")

\* recovery_factor_interpolator(): uses the cache, computing the flux curve when there is none
Interp == /\ sim' = sim
          /\ cache' = IF sim = "none" THEN cache
                      ELSE IF cache[1] = "none" THEN <<"flux", sim>> ELSE cache

Next == SimA \/ SimB \/ SimC \/ SimAS1 \/ SimBS2 \/ RfFlux \/ RfDens \/ Interp
Spec == Init /\ [][Next]_vars

TypeOK == /\ sim \in Sims \cup {"none"}
          /\ cache[1] \in Kinds \cup {"none"}
          /\ cache[2] \in Sims \cup {"none"}

\* the property at model level: whatever is cached belongs to the latest simulation
NeverStale == cache[1] # "none" => cache[2] = sim
=============================================================================
