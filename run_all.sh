#!/bin/bash
# usage: ./run_all.sh [quick|thorough] [seed ...]   - every check, fresh process each, summary at the end
cd "$(dirname "$0")" || exit 2
tier=${1:-quick}; shift
seeds=${@:-0}
fail=0
for s in $seeds; do
  for i in $(seq -w 1 20); do
    out=$(VERIF_SEED=$s ./check C$i --tier "$tier" 2>&1); rc=$?
    line=$(echo "$out" | tail -1)
    echo "seed=$s rc=$rc $line" | cut -c1-220
    if [ $rc -ne 0 ] || echo "$out" | grep -q '^VIOLATION'; then fail=1; echo "$out" | grep -A1 '^VIOLATION' | head -6; fi
  done
done
exit $fail
